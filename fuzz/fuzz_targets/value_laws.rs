#![no_main]
use libfuzzer_sys::fuzz_target;

fuzz_target!(|data: &[u8]| {
	jsv::fuzzglue::fuzz_one("value_laws", data);
});
