#!/usr/bin/env python3
"""Regenerates /verif/MANIFEST.json from the list of implemented checks (`jsv list`)
and the per-property notes below."""
import json, subprocess, os
V = '/verif'
props = [json.loads(l) for l in open(f'{V}/properties.jsonl')]
impl = subprocess.run([f'{V}/harness/target/release/jsv', 'list'], capture_output=True, text=True).stdout.split()
NOTES = {
 'C01': ("bounded-exhaustive enumeration (all strings <=7/8 over an 18-character alphabet, all token sequences <=5/6, transition cover, every 2-/3-byte UTF-8 sequence in 8 contexts, single-byte corpus edits) + proptest grammar/mutation sampling; verdict of 13 entry points vs an independent pushdown automaton and core::str::from_utf8",
         "trusts harness/src/refjson.rs (RFC 8259 automaton, unit-tested) and core::str::from_utf8",
         "PBT: bounded-exhaustive enumeration + proptest sampling, differential vs reference automaton"),
 'C07': ("same enumerations as C01 restricted to rejected inputs, plus stream-error injection at every character of every corpus document; each reported error (variant, offset, character, span, code units) vs the reference viable-prefix recogniser",
         "trusts the reference automaton; surrogate-error spans are read as 'within escape + following element' (DESIGN §C07)",
         "PBT: bounded-exhaustive enumeration + proptest sampling, differential vs viable-prefix recogniser"),
}
DEFAULT = ("bounded-exhaustive enumeration and seeded proptest sampling against an independent reference model", "trusts the harness-side reference model", "PBT: enumeration + proptest vs reference model")
checks = []
for p in props:
    i = p['id']
    if i in impl:
        text, note, tech = NOTES.get(i, DEFAULT)
        checks.append({
            "property_id": i,
            "quick_cmd": f"./run.sh {i} quick",
            "thorough_cmd": f"./run.sh {i} thorough",
            "evidence_file": f"/verif/evidence/{i}.json",
            "replay_cmd_template": "./run.sh replay {path}",
            "engine": "jsv",
            "level_claimed": {"category": "exploration", "text": text, "design_ref": f"DESIGN.md section 3, {i}"},
            "level_note": note,
            "technique": tech,
        })
m = {
 "version": 1,
 "setup_cmd": "cd /verif/harness && CARGO_NET_OFFLINE=true cargo build --release --offline",
 "hooks": {
   "guard": "--cfg json_syntax_verif",
   "enable": "harness/.cargo/config.toml sets build.rustflags = [\"--cfg\", \"json_syntax_verif\"]; the harness depends on /repo by path, so every build recompiles /repo's working tree with the hook on",
   "baseline_off_cmd": "cd /repo && CARGO_NET_OFFLINE=true cargo test --workspace --no-fail-fast --offline",
   "source_commits": ["5ac1089"],
   "add_only": True
 },
 "engines": [{"name": "jsv", "path": "/verif/harness", "serves_properties": [c['property_id'] for c in checks],
              "kind_free_text": "Rust binary: proptest runners with fixed seeds, rayon-parallel bounded-exhaustive enumerators, reference models; worker runs in a child process"}],
 "checks": checks,
 "not_applicable": [{"property_id": p['id'], "reason": "check not built yet in this session (planned in DESIGN.md); not claimed"} for p in props if p['id'] not in impl],
 "notes": "exit 0 = held; 1 = VIOLATION line printed; 2 = inconclusive (never used to hide a violation). VERIF_SEED feeds every random choice."
}
json.dump(m, open(f'{V}/MANIFEST.json', 'w'), indent=1)
print("claimed:", [c['property_id'] for c in checks])
