#!/usr/bin/env python3
"""Regenerates /verif/MANIFEST.json from the list of implemented checks (`jsv list`)
and the per-property notes below."""
import json, subprocess, os
V = '/verif'
props = [json.loads(l) for l in open(f'{V}/properties.jsonl')]
impl = subprocess.run([f'{V}/harness/target/release/jsv', 'list'], capture_output=True, text=True).stdout.split()
NOTES = {
 'C01': ("bounded-exhaustive enumeration (every string <= 7/8 over an 18-character alphabet, every token sequence <= 5/6, transition cover of numbers/literals/escapes x 143 probe characters x 4 contexts, every 2-/3-byte UTF-8 sequence in 8 contexts, every sequence of <= 4/5 string elements around the surrogate ranges, single-byte corpus edits) + proptest grammar/mutation sampling (incl. large documents) + libFuzzer (thorough); verdict of all 13 entry points vs an independent pushdown automaton and core::str::from_utf8",
         "trusts harness/src/refjson.rs (RFC 8259 automaton, unit-tested) and core::str::from_utf8",
         "PBT: bounded-exhaustive enumeration + proptest sampling + coverage-guided fuzzing, differential vs reference automaton"),
 'C02': ("exhaustive over all 65,536 \\uXXXX units, all 1,048,576 surrogate pairs, all scalar values raw (value and key), backslash + every ASCII character; every valid document among all token sequences <= 6/7; proptest renderings of random/large trees through all 13 entry points; value read back through public accessors vs the reference decoder, every key lookup vs a linear scan",
         "trusts the reference decoder in refjson.rs",
         "PBT: exhaustive escape/scalar enumeration + proptest, differential vs reference decoder"),
 'C03': ("proptest byte vectors, corpus prefixes/edits and token sequences under all 4 option records through byte, str, counting-iterator and DecodedChar entry points (no panic, poll budget, verdict = reference) plus the nine option-less entry points incl. FromStr; child processes parsing 11 deep-nesting families at depth 10^3..10^6 (2*10^6 thorough) inside a 128 KiB thread stack with closed-form expectations; libFuzzer (thorough)",
         "a recursive parser/traversal cannot fit 10^5+ levels in 128 KiB; one open known finding (K01) is matched by family and signal only",
         "PBT + fault-style deep-nesting probes in child processes; oracle = reference automaton + closed forms"),
 'C04': ("proptest (value x option record, incl. large values) + bounded-exhaustive product of 570 small values x ~750/3150 option records + libFuzzer (thorough): printed text accepted by the reference automaton, denotes the original tree, re-parses to an equal value, and minus insignificant whitespace equals the reference compact form; values built through nine construction routes (constructors, push, parsing of compact and of escaped renderings, clone, From/FromIterator, Extend, the serde bridges) and values post-processed in place (canonicalize, sort, as_*_mut mutation) before printing",
         "trusts refjson.rs and refprint.rs",
         "PBT: round-trip + differential vs reference automaton/serializer"),
 'C05': ("every valid document among all strings <= 7/8 over the 18-character alphabet and all token sequences <= 6/7, proptest renderings with heavy whitespace (incl. large documents) and documents that only parse under the flexible options; code map of 6 entry points and of `parse` over UTF-16/constant character lengths == reference fragment table; span text re-parses to the fragment",
         "trusts the reference fragment builder in refjson.rs",
         "PBT: bounded-exhaustive + proptest, differential vs reference fragment table"),
 'C06': ("state-exhaustive (every entry list <= 5/6 over 2/3 keys x every operation instance x two construction routes), history-exhaustive (every history <= 4/5 over ~75 operation instances, cloned walk + fresh replay), long random histories over 85 keys, 1200-key histories (index growth to several hundred keys), 3-key histories (dozens of duplicates), operations incl. clone_from and canonicalize over keys above U+FFFF; after every operation: entries, result, full query battery and hook-dumped index vs a list model",
         "trusts the Vec model in props/c06.rs and objquery.rs; remove_unique on duplicates is checked only as far as the rustdoc promises",
         "PBT: stateful model-based testing, bounded-exhaustive + proptest histories"),
 'C07': ("the C01 enumerations restricted to rejected inputs (incl. every sequence of <= 4/5 string elements around the surrogate ranges) + stream-error injection at every character of every corpus document: every reported error (variant, offset, character, span, code units, accessor consistency) vs the reference viable-prefix recogniser",
         "trusts the reference automaton; surrogate-error spans are read as 'within escape + following element' (DESIGN C07)",
         "PBT: bounded-exhaustive + proptest, differential vs viable-prefix recogniser"),
 'C08': ("all 1,112,064 scalars as one-character string and key, proptest values (incl. large), small-value set; six compact outputs (compact_print, to_string, Display with and without format flags, String::from, print_with(compact)) byte-equal to the reference RFC 8785 serializer",
         "trusts refprint.rs::compact",
         "PBT: exhaustive scalar enumeration + proptest, differential vs reference serializer"),
 'C09': ("RFC 8785 Appendix B and section 3.2.3 vectors; proptest isolated numbers (scaled digits <= 40/400, exact midpoints of adjacent doubles +-, integers next to midpoints, layout thresholds, exact respellings of special doubles) re-validated with exact decimal arithmetic; I-JSON trees with tricky/long-prefix keys; canonicalize/_with and Object::canonicalize/_with vs the reference canonicalizer",
         "trusts core's float parser (re-validated per case with exact arithmetic) and the length of core's shortest digit string; last digit re-derived (closest, ties to even)",
         "PBT: proptest + RFC vectors, differential vs independent reference implementation"),
 'C10': ("metamorphic: one I-JSON tree, two rewritings (whitespace, member order at every level, escapes, exact number respellings) must give identical canonical bytes; all permutations of <= 4/5 members; idempotence, fixed point, structure preserved, queries and index consistent afterwards",
         "respellings are exact by construction (re-verified with decimal arithmetic)",
         "PBT: metamorphic relations over proptest-generated rewritings"),
 'C11': ("every valid document among all token sequences <= 8/9 over 10 tokens, proptest renderings (incl. large), flexible-option documents with injected surrogate escapes, code maps over UTF-16 lengths: every array/object/key incl. duplicated and absent ones, 8 mapped lookups, get_fragment(0..n+2), volume/count, span identity; conversions Vec/Vec<Vec>/BTreeMap with a wrong-kind value or unparsable key planted at a random fragment; built-in leaf conversions",
         "trusts the reference fragment table",
         "PBT: bounded-exhaustive + proptest, differential vs reference fragment table"),
 'C12': ("every sequence of <= 5/6 string elements from {2 high, 2 low surrogate escapes, ordinary escape, raw character} as value/key/array item under all 4 option records through 6 entry points; token sequences, all strings <= 6/7 over the alphabet, transition cover, corpus edits, proptest documents with injected surrogate sequences; acceptance <=>, decoded text and code map vs the reference with flags",
         "'accepts' is read as 'accepts exactly', following the options' rustdoc",
         "PBT: bounded-exhaustive + proptest, differential vs reference with leniency flags"),
 'C13': ("proptest value x option record, limits set to w-1/w/w+1 and n-1/n/n+1 around the actual width/length of a chosen container, deep chains forcing wide indentation, bounded-exhaustive small values x option set; output byte-equal to a reference layout printer written from the rustdoc",
         "trusts refprint.rs::print_layout as the transcription of the documented layout",
         "PBT: proptest + bounded-exhaustive, differential vs reference printer"),
 'C14': ("proptest triples of a value and near-copies (== must equal equality of reference trees; reflexive, antisymmetric, transitive, cmp/partial_cmp/operators coherent, equal => same DefaultHasher hash and same byte stream to a recording Hasher), 9 construction routes for one entry list, mixed-size triples, every ordered triple over 43 small values, objects reached through generated operation histories (C06's generator) vs fresh builds of their final entry list",
         "content = reference tree read through public accessors",
         "PBT: algebraic laws over proptest-generated triples and construction routes"),
 'C15': ("all ordered pairs of the 6,175 objects with <= 3 entries over 2 keys x 9 values and of the 11,111 objects with <= 4 entries over 5 values (thorough: 41,371 objects over 7 values), wrapped variants, shuffles and single-leaf mutations of random/large values, wide objects over <= 3 keys x 4 values, objects reached through operation histories, operands canonicalized or sorted in place; vs 'normal forms are equal'",
         "trusts the normal-form reference in props/c15.rs",
         "PBT: bounded-exhaustive pairs + proptest, differential vs normal-form reference"),
 'C16': ("proptest instances of a derive-annotated type family covering every data-model shape the serializer implements (all integer widths at bounds, f32/f64 from random bits, Unicode, maps keyed by String/i64/i8/u8/u64/char/unit variant/newtype): round trip, shape agreement with serde_json, deserialization of serde_json's Value and text rendering; 2M/50M isolated floats",
         "serde_json is the reference the property names; exclusions listed in DESIGN C16",
         "PBT: round-trip + differential vs serde_json"),
 'C17': ("proptest values outside the known-finding classes (exact serialization model incl. duplicate collapse; Value->Value and text->Value deserialization), all number spellings with class-predicate attribution of the 4 open findings, large shapes, duplicated keys whose values are permutations of each other, keys that merely resemble serde_json's private number token, fixed probes; libFuzzer value_laws target (thorough)",
         "serde_json with /repo's features; open findings K02-K05 matched by machine-computed class predicates only",
         "PBT: proptest, model + differential vs serde_json"),
 'C18': ("proptest serde_json values (all three number representations, private-token objects), json-syntax values of the stated domain (incl. exactly respelled special doubles), unrestricted values for the no-panic clause, duplicate-free objects reached through generated operation histories (duplicates pushed, then removed); a float difference is attributed to the open finding only if bit-equal to serde_json's own FromStr of that token",
         "serde_json with /repo's features; open findings K06/K07",
         "PBT: round-trip with exact attribution predicate"),
 'C19': ("3,000/30,000 generated programs: documents emitted as Rust json! invocations and as JSON text, compiled in one crate per 1,000 against the current /repo and run; a compile error of a generated program is a failure",
         "float literals outside the 'stable' class are compared by f64 bits",
         "PBT over programs: generate, compile, run, compare with parse of the same text"),
 'C20': ("the complete finite domain: 64 sets, 64x64 and 64x6 pairs in both operand orders, 6x6 kind pairs, every front/back interleaving of iteration, all renderings (also as embedded in the Unexpected error message), Value::kind/is_kind; vs a BTreeSet model",
         "exhaustive; renderings follow the rustdoc examples",
         "exhaustive enumeration vs set model (PBT family, exhaustive generator)"),
}
DEFAULT = ("bounded-exhaustive enumeration and seeded proptest sampling against an independent reference model", "trusts the harness-side reference model", "PBT: enumeration + proptest vs reference model")
checks = []
for p in props:
    i = p['id']
    if i in impl:
        text, note, tech = NOTES.get(i, DEFAULT)
        checks.append({
            "property_id": i,
            "quick_cmd": f"./run.sh {i} quick",
            "thorough_cmd": f"./run.sh {i} thorough",
            "evidence_file": f"/verif/evidence/{i}.json",
            "replay_cmd_template": "./run.sh replay {path}",
            "engine": "jsv",
            "level_claimed": {"category": "exploration", "text": text, "design_ref": f"DESIGN.md section 3, {i}"},
            "level_note": note,
            "technique": tech,
        })
m = {
 "version": 1,
 "setup_cmd": "cd /verif/harness && CARGO_NET_OFFLINE=true cargo build --release --offline",
 "hooks": {
   "guard": "--cfg json_syntax_verif",
   "enable": "harness/.cargo/config.toml sets build.rustflags = [\"--cfg\", \"json_syntax_verif\"]; the harness depends on /repo by path, so every build recompiles /repo's working tree with the hook on",
   "baseline_off_cmd": "cd /repo && CARGO_NET_OFFLINE=true cargo test --workspace --no-fail-fast --offline",
   "source_commits": ["5ac1089"],
   "add_only": True
 },
 "engines": [{"name": "jsv", "path": "/verif/harness", "serves_properties": [c['property_id'] for c in checks],
              "kind_free_text": "Rust binary: proptest runners with fixed seeds, rayon-parallel bounded-exhaustive enumerators, reference models; worker runs in a child process"}],
 "checks": checks,
 "not_applicable": [{"property_id": p['id'], "reason": "no check built; not claimed"} for p in props if p['id'] not in impl],
 "notes": "every check first replays the saved minimal failing cases under regress/ (family R_regression_replays); thorough adds libFuzzer campaigns (parse_diff, print_rt, object_ops under ASan, value_laws). exit 0 = held; 1 = VIOLATION line printed; 2 = inconclusive (never used to hide a violation). VERIF_SEED feeds every random choice."
}
json.dump(m, open(f'{V}/MANIFEST.json', 'w'), indent=1)
print("claimed:", [c['property_id'] for c in checks])
