#!/bin/bash
# Runs every filed change of a seeded round (prefix given, e.g. Y) against its own property's quick check and
# appends the outcome to the change's meta.json (checks_run). /repo must be idle.
cd /verif
PFX="$1"
for d in seeded/${PFX}[0-9][0-9]-[ab]; do
  id=$(basename $d); prop=C${id:1:2}
  R=$(tools/mutant.sh $d/patch.diff $prop quick 2>&1 | head -1)
  fams=$(grep -a -o 'family=[A-Za-z0-9_:]*' /tmp/mutant.err | sort | uniq -c | awk '{printf "%s(%s) ", $2, $1}' | sed 's/family=//g')
  echo "$id $R | $fams"
  python3 - "$d/meta.json" "$R | families: $fams" <<'PY'
import json, sys
m = json.load(open(sys.argv[1])); m["checks_run"] = sys.argv[2]; json.dump(m, open(sys.argv[1], "w"), indent=1)
PY
done
