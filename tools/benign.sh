#!/bin/bash
# usage: tools/benign.sh confirm <Bn> <a|b|c>      - confirm in the worktree (suite passes with the change), file it
#        tools/benign.sh run <Bn-x> [checks...]    - apply to /repo, run the given quick checks (default: all 20), restore
set -u
cd /verif
case "$1" in
confirm)
  P="$2"; X="$3"; WT=/tmp/wt/$P; D=$WT/benign; OUT=/verif/seeded/$P-$X
  [ -f "$D/$X.diff" ] || { echo "no $D/$X.diff"; exit 3; }
  cd "$WT" || exit 3
  git checkout -q -- src; rm -f tests/seeded_demo_*.rs
  export CARGO_NET_OFFLINE=true
  git apply --check "$D/$X.diff" || { echo "$P-$X: patch does not apply"; exit 3; }
  git apply "$D/$X.diff"
  SUITE=$(cargo test --offline 2>&1 | grep -E "^test result" | awk '{p+=$4; f+=$6} END {print p" passed "f" failed"}')
  SUITEF=$(cargo test --offline --features canonicalize,serde,serde_json 2>&1 | grep -E "^test result|^error" | awk '/^error/ {e=1} /^test result/ {p+=$4; f+=$6} END {print p" passed "f" failed" (e?" BUILD-ERROR":"")}')
  LINES=$(grep -c '^[-+][^-+]' "$D/$X.diff")
  git checkout -q -- src
  echo "$P-$X suite: $SUITE | with features: $SUITEF | changed lines: $LINES"
  mkdir -p "$OUT"; cp "$D/$X.diff" "$OUT/patch.diff"; cp "$D/NOTES.md" "$OUT/NOTES.md" 2>/dev/null
  python3 - "$P" "$X" "$OUT" "$SUITE" "$SUITEF" "$LINES" <<'PY'
import sys, json
p,x,out,suite,suitef,lines=sys.argv[1:7]
json.dump({"kind":"benign (property-preserving) change, used to test the checks for false alarms","group":p,"variant":x,"source":"independent sub-agent given the twenty property texts and a scratch worktree",
 "existing_suite_with_change":suite,"existing_suite_with_change_all_features":suitef,"changed_lines":int(lines),"checks_run":""}, open(out+"/meta.json","w"), indent=1)
PY
  ;;
run)
  ID="$2"; shift 2
  CHECKS="${*:-C01 C02 C03 C04 C05 C06 C07 C08 C09 C10 C11 C12 C13 C14 C15 C16 C17 C18 C19 C20}"
  PATCH=/verif/seeded/$ID/patch.diff
  if [ -n "$(git -C /repo status --porcelain)" ]; then echo "/repo is dirty" >&2; exit 3; fi
  git -C /repo apply "$PATCH" || { echo "patch does not apply" >&2; exit 3; }
  mkdir -p /tmp/evkeep; cp /verif/evidence/*.json /tmp/evkeep/
  trap 'git -C /repo checkout -- . ; cp /tmp/evkeep/*.json /verif/evidence/' EXIT
  RES=""
  for C in $CHECKS; do
    ./run.sh $C quick > /tmp/benign.out 2> /tmp/benign.err; rc=$?
    fams=$(grep -a -o 'family=[A-Za-z0-9_:]*' /tmp/benign.err | sort -u | head -3 | tr '\n' ' ')
    RES="$RES$C=$rc "
    [ $rc -ne 0 ] && { echo "  $ID: $C exit=$rc $fams"; grep -a -m2 'family=' /tmp/benign.err | cut -c1-400; cp /tmp/benign.err /tmp/benign.$ID.$C.err; }
  done
  echo "$ID: $RES"
  python3 - "/verif/seeded/$ID/meta.json" "$RES" <<'PY'
import json, sys
m = json.load(open(sys.argv[1])); m["checks_run"] = (m.get("checks_run","") + " " + sys.argv[2]).strip(); json.dump(m, open(sys.argv[1], "w"), indent=1)
PY
  ;;
esac
