#!/usr/bin/env python3
"""Prompt for a 'benign change' sub-agent: property-PRESERVING refactorings, used to test the checks for false alarms.
usage: mkprompt_benign.py <worktree-dir> <module focus text>"""
import json, sys
wt, focus = sys.argv[1], sys.argv[2]
props = [json.loads(l) for l in open('/verif/properties.jsonl')]
plist = "\n\n".join(f"{p['id']} — {p['title']}\n{p['statement']}" for p in props)
print(f"""You are helping to evaluate a test harness for a Rust library (timothee-haudebourg/json-syntax, a strict JSON parser/printer/value model) for FALSE ALARMS. You work ONLY inside your own scratch git worktree: {wt} (a checkout of the library; `src/`, `tests/`, `Cargo.toml`). Do NOT read, write or run anything under /repo or /verif, and do not look for other harnesses on this machine. There is no network: always use `CARGO_NET_OFFLINE=true cargo ... --offline -j 4`.

Below are twenty semantic properties that users of the library rely on. Your task is the OPPOSITE of seeding defects: produce THREE independent source changes (A, B, C) that a maintainer could realistically make and that PRESERVE ALL TWENTY PROPERTIES, while changing as much as plausible of what the properties do NOT promise. Focus area for your changes: {focus}

Good candidates: an internal refactoring or optimisation with identical observable results (different algorithm, different data layout, different capacity/growth policy, a fast path that is actually correct, recursion replaced by iteration or vice versa where depth is not an issue, reordered match arms, different hashing or hasher seeding, different intermediate allocations); changes of observable details that no property mentions (wording of `Display`/`Debug` output of error types or of internal types, `Debug` formatting, error messages of serde errors, names of private items, inlining hints, which of two equal candidates an internal search visits first, iteration order of something internal); stricter or looser internals that cannot be observed through the public behaviour the properties describe. Each change must be non-trivial (not a comment or whitespace change; at least a handful of changed lines with a real behavioural or structural difference somewhere) and the three must differ in kind.

Each change must:
  1. keep every one of the twenty properties true (argue this per change in NOTES.md: which properties are near the change and why each still holds);
  2. compile (also with `--features canonicalize,serde,serde_json`) and pass the library's existing test suite unedited: `cd {wt} && CARGO_NET_OFFLINE=true cargo test --offline -j 4` and the same with `--features canonicalize,serde,serde_json`;
  3. be realistic.

Deliverables, all inside {wt}/benign/ (create the directory): a.diff, b.diff, c.diff (`git diff -- src` of each change relative to the ORIGINAL checkout, not stacked; each must apply cleanly with `git apply` to a clean checkout) and NOTES.md (per change: what it changes, what observable detail - if any - differs, why all properties still hold, and the exact test commands you ran with their outcome). Leave `src/` CLEAN at the end; do not commit anything. Your final message should summarise A, B and C in a few lines each.

The twenty properties:

{plist}
""")
