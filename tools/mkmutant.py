#!/usr/bin/env python3
"""usage: mkmutant.py <name> <file-relative-to-/repo> <old> <new> [count]
Creates /verif/mutants/<name>.diff by replacing `old` with `new` in the file (must occur exactly once
unless count given), then restores /repo."""
import sys, subprocess
name, f, old, new = sys.argv[1:5]
old = old.encode().decode('unicode_escape'); new = new.encode().decode('unicode_escape')
p = '/tmp/mkrepo/' + f
s = open(p).read()
n = s.count(old)
want = int(sys.argv[5]) if len(sys.argv) > 5 else 1
if n < 1 or (want == 1 and n != 1):
    print(f"pattern occurs {n} times", file=sys.stderr); sys.exit(1)
open(p, 'w').write(s.replace(old, new, want))
d = subprocess.run(['git', '-C', '/tmp/mkrepo', 'diff'], capture_output=True, text=True).stdout
open(f'/verif/mutants/{name}.diff', 'w').write(d)
subprocess.run(['git', '-C', '/tmp/mkrepo', 'checkout', '--', '.'])
print(f"wrote mutants/{name}.diff ({len(d.splitlines())} lines)")
