#!/bin/bash
# Runs every own mutant (mutants/*.diff, mutants/unfix/*.diff): pinned suite must still pass with the
# mutant (otherwise it is not a valid mutant), then the owning property's quick check must fail.
# Writes mutants/RESULTS.md. Must not run concurrently with anything else that builds against /repo.
cd /verif
OUT=mutants/RESULTS.md
echo "# Own mutants: pinned suite with the mutant / owning quick check" > $OUT
echo "" >> $OUT
echo "| mutant | pinned suite (default + all features) | check | result | secs | families that fired |" >> $OUT
echo "|---|---|---|---|---|---|" >> $OUT
owner() { case "$1" in unfix1) echo C01;; unfix2) echo C05;; unfix3) echo C09;; unfix4) echo C09;; unfix5) echo C12;; unfix6|unfix7) echo C13;; unfix8) echo C15;; *) n=${1%%_*}; echo ${n^^};; esac; }
for f in /verif/mutants/*.diff /verif/mutants/unfix/*.diff; do
  name=$(basename $f .diff); prop=$(owner $name)
  [ -n "${ONLY:-}" ] && [[ "$name" != *$ONLY* ]] && continue
  if [ -n "$(git -C /repo status --porcelain)" ]; then echo "/repo dirty"; exit 3; fi
  if ! git -C /repo apply --check $f 2>/dev/null; then echo "| $name | patch does not apply | $prop | - | - | - |" >> $OUT; continue; fi
  git -C /repo apply $f
  S1=$(cd /repo && CARGO_NET_OFFLINE=true cargo test --workspace --no-fail-fast --offline 2>&1 | grep -E "^test result|^error" | awk '/^error/ {e=1} /^test result/ {p+=$4; f+=$6} END {print p"/"f (e?" BUILD-ERROR":"")}')
  S2=$(cd /repo && CARGO_NET_OFFLINE=true cargo test --no-fail-fast --offline --features canonicalize,serde,serde_json 2>&1 | grep -E "^test result|^error" | awk '/^error/ {e=1} /^test result/ {p+=$4; f+=$6} END {print p"/"f (e?" BUILD-ERROR":"")}')
  git -C /repo checkout -- .
  R=$(tools/mutant.sh $f $prop quick 2>&1 | head -1)
  rc=$(echo "$R" | grep -o 'exit=[0-9]*'); secs=$(echo "$R" | grep -o 'secs=[0-9]*')
  fams=$(grep -o 'family=[A-Za-z0-9_:]*' /tmp/mutant.err | sort | uniq -c | awk '{printf "%s ", $2}' | sed 's/family=//g')
  res="SURVIVED"; [ "$rc" = "exit=1" ] && res="killed"; [ "$rc" = "exit=2" ] && res="inconclusive"
  echo "| $name | $S1 ; $S2 (passed/failed) | $prop | $res | ${secs#secs=} | $fams |" | tee -a $OUT
done
