#!/bin/bash
# Builds the regression corpus (regress/): one saved minimal failing case per reverted fix, own mutant and seeded change,
# each produced by tools/mkregress.sh (fails on the changed tree, passes on the unchanged one). /repo must be idle.
# usage: tools/regress_all.sh [unfix|mutants|seeded ...]   (default: all three)
cd /verif
WHAT="${*:-unfix mutants seeded}"
LOG=/tmp/regress_all.log
export NOCLEAN=1
for w in $WHAT; do
  case $w in
    unfix)
      # property owning each reverted fix (known_findings.json: F01..F10 in commit order)
      i=0
      for prop in C01 C05 C09 C09 C12 C13 C13 C15 C08 C16; do
        i=$((i+1))
        [ -f regress/$prop-unfix$i.json ] && continue
        tools/mkregress.sh mutants/unfix/unfix$i.diff $prop unfix$i 2>&1 | tail -1 | tee -a $LOG
      done ;;
    mutants)
      for f in mutants/*.diff; do
        n=$(basename $f .diff); prop=$(echo ${n%%_*} | tr a-z A-Z)
        [ -f regress/$prop-$n.json ] && continue
        tools/mkregress.sh $f $prop $n 2>&1 | tail -1 | tee -a $LOG
      done ;;
    seeded)
      for d in seeded/[CHXY][0-9][0-9]-[ab]/; do
        id=$(basename $d); prop=C${id:1:2}
        [ -n "${SEEDED_ONLY:-}" ] && [[ ! "$id" =~ ^[$SEEDED_ONLY] ]] && continue
        [ -f regress/$prop-seeded-$id.json ] && continue
        tools/mkregress.sh $d/patch.diff $prop seeded-$id 2>&1 | tail -1 | tee -a $LOG
      done ;;
  esac
done

# one pass on the unchanged tree: every saved case must pass there; files that do not are removed
git -C /repo status --porcelain | grep -q . && { echo "/repo dirty at the end?"; exit 3; }
for prop in C01 C02 C03 C04 C05 C06 C07 C08 C09 C10 C11 C12 C13 C14 C15 C16 C17 C18 C19 C20; do
  ls regress/$prop-*.json >/dev/null 2>&1 || continue
  cp evidence/$prop.json /tmp/evidence.$prop.keep
  JSV_ONLY=R_regression_replays ./run.sh $prop quick > /tmp/regress_verify.out 2> /tmp/regress_verify.err
  mv /tmp/evidence.$prop.keep evidence/$prop.json
  for f in $(grep -a '^VIOLATION' /tmp/regress_verify.out | sed 's/.*replay=//'); do
    bad=$(python3 -c "import json,sys; print(json.load(open('$f'))['case'].get('file',''))")
    [ -n "$bad" ] && { echo "removing regress/$bad: does not pass on the unchanged tree" | tee -a $LOG; rm -f regress/$bad; }
  done
done
