#!/bin/bash
# Builds the regression corpus (regress/): one saved minimal failing case per reverted fix, own mutant and seeded change,
# each produced by tools/mkregress.sh (fails on the changed tree, passes on the unchanged one). /repo must be idle.
# usage: tools/regress_all.sh [unfix|mutants|seeded ...]   (default: all three)
cd /verif
WHAT="${*:-unfix mutants seeded}"
LOG=/tmp/regress_all.log
for w in $WHAT; do
  case $w in
    unfix)
      # property owning each reverted fix (known_findings.json: F01..F10 in commit order)
      i=0
      for prop in C01 C05 C09 C09 C12 C13 C13 C15 C08 C16; do
        i=$((i+1))
        [ -f regress/$prop-unfix$i.json ] && continue
        tools/mkregress.sh mutants/unfix/unfix$i.diff $prop unfix$i 2>&1 | tail -1 | tee -a $LOG
      done ;;
    mutants)
      for f in mutants/*.diff; do
        n=$(basename $f .diff); prop=$(echo ${n%%_*} | tr a-z A-Z)
        [ -f regress/$prop-$n.json ] && continue
        tools/mkregress.sh $f $prop $n 2>&1 | tail -1 | tee -a $LOG
      done ;;
    seeded)
      for d in seeded/*/; do
        id=$(basename $d); prop=C${id:1:2}
        [ -f regress/$prop-seeded-$id.json ] && continue
        tools/mkregress.sh $d/patch.diff $prop seeded-$id 2>&1 | tail -1 | tee -a $LOG
      done ;;
  esac
done
