#!/bin/bash
# usage: tools/mutant.sh <patch.diff> <ID> [tier]   (env JSV_ONLY passes through)
# Applies a patch to /repo's working tree, runs the check, restores /repo.
set -u
PATCH="$(readlink -f "$1")"; ID="$2"; TIER="${3:-quick}"
cd /verif
if [ -n "$(git -C /repo status --porcelain)" ]; then echo "/repo is dirty" >&2; exit 3; fi
git -C /repo apply "$PATCH" || { echo "patch does not apply" >&2; exit 3; }
# keep the committed evidence of the unchanged tree: a mutant run must not replace it
EVID=/verif/evidence/$ID.json
[ -f "$EVID" ] && cp "$EVID" /tmp/evidence.$ID.keep
trap 'git -C /repo checkout -- . ; [ -f /tmp/evidence.'$ID'.keep ] && mv /tmp/evidence.'$ID'.keep '$EVID EXIT
START=$(date +%s)
./run.sh "$ID" "$TIER" > /tmp/mutant.out 2> /tmp/mutant.err
RC=$?
END=$(date +%s)
echo "mutant=$(basename "$PATCH") check=$ID tier=$TIER exit=$RC secs=$((END-START)) $(grep -a -c '^VIOLATION' /tmp/mutant.out) violation lines"
grep -a -m2 -A1 '^VIOLATION' /tmp/mutant.out; grep -a -m3 'family=' /tmp/mutant.err
exit $RC
