#!/bin/bash
# usage: tools/seeded.sh <Cxx> <a|b> [check-ids...]
# Confirms a sub-agent's seeded change in its scratch worktree (/tmp/wt/<Cxx>), files it under
# /verif/seeded/<Cxx>-<x>/ and runs the given checks (default: the property's own) against it.
set -u
P="$1"; X="$2"; shift 2
PROP="C${P:1}"
CHECKS="${*:-$PROP}"
WT=/tmp/wt/$P
D=$WT/seeded
OUT=/verif/seeded/$P-$X
[ -f "$D/$X.diff" ] || { echo "no $D/$X.diff"; exit 3; }
cd "$WT" || exit 3
git checkout -q -- src 2>/dev/null
rm -f tests/seeded_demo_*.rs
export CARGO_NET_OFFLINE=true
git apply --check "$D/$X.diff" || { echo "$P-$X: patch does not apply"; exit 3; }
git apply "$D/$X.diff"
SUITE=$(cargo test --offline 2>&1 | grep -E "^test result" | awk '{p+=$4; f+=$6} END {print p" passed "f" failed"}')
SUITEF=$(cargo test --offline --features canonicalize,serde,serde_json 2>&1 | grep -E "^test result|^error" | awk '/^error/ {e=1} /^test result/ {p+=$4; f+=$6} END {print p" passed "f" failed" (e?" BUILD-ERROR":"")}')
cp "$D/seeded_demo_$X.rs" tests/seeded_demo_$X.rs
DEMO_WITH=$(cargo test --offline --features canonicalize,serde,serde_json --test seeded_demo_$X 2>&1 | grep -E "^test result|^error" | head -3 | tr '\n' ' ')
git checkout -q -- src
DEMO_WITHOUT=$(cargo test --offline --features canonicalize,serde,serde_json --test seeded_demo_$X 2>&1 | grep -E "^test result|^error" | head -3 | tr '\n' ' ')
rm -f tests/seeded_demo_$X.rs
echo "$P-$X suite: $SUITE | with features: $SUITEF"
echo "$P-$X demo with change:    $DEMO_WITH"
echo "$P-$X demo without change: $DEMO_WITHOUT"
mkdir -p "$OUT"
cp "$D/$X.diff" "$OUT/patch.diff"
cp "$D/seeded_demo_$X.rs" "$OUT/demo.rs"
cp "$D/NOTES.md" "$OUT/NOTES.md" 2>/dev/null
RES=""
[ -n "${NOCHECK:-}" ] && CHECKS=""   # confirmation only (when /repo is busy); run the checks later with tools/mutant.sh
for C in $CHECKS; do
  R=$(/verif/tools/mutant.sh "$OUT/patch.diff" "$C" quick 2>&1 | head -1)
  echo "   $R"
  RES="$RES$R; "
done
python3 - "$P" "$X" "$OUT" "$SUITE" "$SUITEF" "$DEMO_WITH" "$DEMO_WITHOUT" "$RES" <<'PY'
import sys, json
p,x,out,suite,suitef,dw,dwo,res=sys.argv[1:9]
hard=p.startswith("H"); cross=p.startswith("X") or p.startswith("Y"); hard=hard or p.startswith("Z"); pair=p.startswith("W"); p="C"+p[1:]
json.dump({"property":p,"round":("two cooperating sites: each edit alone harmless, both together break the property for unusual inputs" if pair else "hard mode: size thresholds / conjunctions / long histories" if hard else ("cross-module mode: defect outside the obvious module, route- or entry-point-specific" if cross else "1")),"variant":x,"source":"independent sub-agent given only the property text and a scratch worktree",
 "existing_suite_with_change":suite,"existing_suite_with_change_all_features":suitef,
 "demo_with_change":dw.strip(),"demo_without_change":dwo.strip(),"checks_run":res.strip(),
 "needs_to_manifest":"see NOTES.md (written by the sub-agent)"}, open(out+"/meta.json","w"), indent=1)
PY
