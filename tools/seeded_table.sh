#!/bin/bash
# Re-runs every filed seeded change against its property's quick check and records which families fired.
cd /verif
OUT=seeded/RESULTS.tsv
: > $OUT
for d in seeded/*/; do
  id=$(basename $d); prop=${id%%-*}; prop=C${prop:1}
  tools/mutant.sh $d/patch.diff $prop quick > /tmp/st.out 2>&1
  rc=$(grep -o 'exit=[0-9]*' /tmp/st.out | head -1)
  secs=$(grep -o 'secs=[0-9]*' /tmp/st.out | head -1)
  fams=$(grep -a -o 'family=[A-Za-z0-9_:]*' /tmp/mutant.err | sort | uniq -c | awk '{printf "%s(%s) ", $2, $1}' | sed 's/family=//g')
  echo -e "$id\t$prop\t$rc\t$secs\t$fams" | tee -a $OUT
done
