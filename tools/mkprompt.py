#!/usr/bin/env python3
"""Writes the prompt given to a sensitivity sub-agent: the text of ONE property and its scratch worktree, nothing from /verif.
usage: mkprompt.py <Cxx> <worktree-dir> <mode>   (mode: plain | hard | cross | pair)"""
import json, sys
pid, wt, mode = sys.argv[1], sys.argv[2], sys.argv[3]
p = next(json.loads(l) for l in open('/verif/properties.jsonl') if json.loads(l)['id'] == pid)
extra = {
 'plain': '',
 'hard': "HARD MODE: assume the harness under evaluation already checks this property with bounded-exhaustive enumeration of small inputs and with randomly generated inputs of small to medium size through the obvious API. Aim for changes such a harness is likely to MISS: they should need large sizes or counts, particular magic values or boundaries (powers of two, 16/32/64-element thresholds, specific code point ranges), a rarely used public API route, a particular combination of options, or a specific multi-step history.\n",
 'pair': "TWO-COOPERATING-SITES MODE: assume the harness under evaluation already checks this property thoroughly with enumerated small inputs and random inputs of all sizes through every public route. Each of your changes must consist of TWO edits at DIFFERENT sites (different functions, ideally different files) such that EITHER EDIT ALONE leaves the property intact (each is a plausible, locally harmless refactor: a changed default, a relaxed or tightened helper, a reordered step, a cached value, a different-but-equivalent-looking representation) and only BOTH TOGETHER break the property - and even then only for inputs / option combinations / operation histories that are unusual (a particular conjunction of two features of the input, a particular pair of options, a value that went through two particular steps in order). In NOTES.md say why each edit alone is harmless, and verify that claim with your demonstration (demo passes with only edit 1, passes with only edit 2, fails with both).\n",
 'cross': "CROSS-MODULE MODE: assume the harness under evaluation already checks this property thoroughly through the most obvious API and module. Put each defect OUTSIDE the module that is most obviously responsible for the property (a helper, a conversion, a trait impl, a constructor, an iterator, a feature-gated function, a dependency-facing shim elsewhere in src/), so that the property only breaks for values/inputs that arrive through ONE particular construction route, entry point, trait method or post-processing step (e.g. a value that was cloned, extended, sorted, canonicalized, converted, collected, taken, or parsed through a specific entry point before the property is exercised). The property text defines what is in scope; stay inside it.\n",
}[mode]
print(f"""You are helping to evaluate a test harness by writing SEEDED DEFECTS for a Rust library (timothee-haudebourg/json-syntax, a strict JSON parser/printer/value model). You work ONLY inside your own scratch git worktree: {wt} (a checkout of the library; `src/`, `tests/`, `Cargo.toml`). Do NOT read, write or run anything under /repo or /verif, and do not look for other harnesses on this machine: your work must be independent. There is no network: always use `CARGO_NET_OFFLINE=true cargo ... --offline`. Other jobs share this machine: limit parallelism with `-j 4`.

The semantic property under study (this text is all you get about it):

-----
{p['id']} — {p['title']}

Statement: {p['statement']}

Quantified over: {p['quantifier']['text']}
-----

Your task: produce TWO independent source changes to the library (call them A and B), each of which
  1. BREAKS the property above (some input / operation history / configuration within the property's scope now behaves wrongly),
  2. still COMPILES (including with `--features canonicalize,serde,serde_json`) and still PASSES the library's existing test suite unedited: `cd {wt} && CARGO_NET_OFFLINE=true cargo test --offline -j 4` (and `--features canonicalize,serde,serde_json` too),
  3. is REALISTIC (the kind of slip a maintainer could make during a refactor or optimisation: an off-by-one, a wrong branch, a forgotten case, a stale cache, a wrong field, a condition narrowed or widened) and SUBTLE: it must need something specific to manifest - an unusual input, a particular multi-step sequence of operations, a particular combination of options, a rarely taken branch, or two cooperating sites that each look fine alone. Do NOT make changes that ordinary use would expose at once (e.g. breaking every parse or every print).
  A and B must be different in kind (different code sites and different triggering conditions). Keep each change small (a few lines).
{extra}
For each change also write a DEMONSTRATION: a small Rust integration test file (e.g. `tests/seeded_demo_a.rs`, using only the library's public API) that FAILS with the change applied and PASSES on the unchanged library. The demonstration is not part of the change.

Deliverables, all inside {wt}/seeded/ (create the directory):
  - a.diff and b.diff : `git diff` of the library sources (src/ only) for change A resp. B, each relative to the ORIGINAL checkout (not stacked on each other). Make sure each applies cleanly with `git apply` to a clean checkout.
  - seeded_demo_a.rs and seeded_demo_b.rs : the demonstrations (copies of the test files).
  - NOTES.md : for each change: which clause of the property it breaks, what exactly is needed for it to manifest (the trigger / route), and the exact commands you ran with their outcome (existing suite passes with the change; demo fails with the change; demo passes without it).
Procedure hint: make change A, run the existing suite + features build, run the demo (must fail), save a.diff via `git diff -- src > seeded/a.diff`, then `git checkout -- src` and confirm the demo passes; repeat for B. Leave the worktree's src/ CLEAN (unchanged) at the end, with only the files under seeded/ (and your demo test files) added. Do not commit anything.

Verify everything yourself by actually running the commands; report honestly if something could not be achieved. Your final message should summarise A and B in 5-10 lines.""")
