#!/bin/bash
# usage: tools/mkregress.sh <patch.diff> <Cxx> <origin>     (env JSV_ONLY passes through)
# Applies a change to /repo, runs the property's quick check, keeps the SMALLEST replay file it reports that
# (i) fails again when replayed on the changed tree and (ii) passes when replayed on the unchanged tree,
# as /verif/regress/<Cxx>-<origin>.json (with an "origin" field), and restores /repo.
set -u
PATCH="$(readlink -f "$1")"; ID="$2"; ORIGIN="$3"
cd /verif
mkdir -p regress
if [ -n "$(git -C /repo status --porcelain)" ]; then echo "/repo is dirty" >&2; exit 3; fi
git -C /repo apply "$PATCH" || { echo "patch does not apply" >&2; exit 3; }
EVID=/verif/evidence/$ID.json
[ -f "$EVID" ] && cp "$EVID" /tmp/evidence.$ID.keep
trap 'git -C /repo checkout -- . ; [ -f /tmp/evidence.'$ID'.keep ] && mv /tmp/evidence.'$ID'.keep '$EVID EXIT
./run.sh "$ID" quick > /tmp/mkr.out 2> /tmp/mkr.err
RC=$?
[ $RC -eq 1 ] || { echo "$ORIGIN: check $ID exit=$RC (no violation) - nothing saved"; exit 4; }
CANDS=$(grep -a '^VIOLATION' /tmp/mkr.out | sed 's/.*replay=//' | xargs ls -S 2>/dev/null | tac)
KEEP=""
for f in $CANDS; do
  grep -q '"family": *"worker-crash"' "$f" && continue
  grep -q '"family": *"R_regression_replays"' "$f" && continue
  ./run.sh replay "$f" > /tmp/mkr.replay 2>&1; r=$?
  if [ $r -eq 1 ]; then KEEP="$f"; break; fi
done
[ -n "$KEEP" ] || { echo "$ORIGIN: no replayable violation among $(echo $CANDS | wc -w) candidates"; exit 5; }
if [ -z "${NOCLEAN:-}" ]; then
  # (with NOCLEAN=1 the caller verifies all saved files on the unchanged tree in one pass at the end: tools/regress_all.sh)
  git -C /repo checkout -- .
  ./run.sh replay "$KEEP" > /tmp/mkr.replay 2>&1; r=$?
  [ $r -eq 0 ] || { echo "$ORIGIN: replay of $KEEP does not pass on the unchanged tree (exit $r)"; exit 6; }
fi
python3 - "$KEEP" "regress/$ID-$ORIGIN.json" "$ORIGIN" <<'PY'
import json, sys
j = json.load(open(sys.argv[1]))
out = {"property": j["property"], "family": j["family"], "origin": sys.argv[3], "message_on_changed_tree": j.get("message", "")[:600], "case": j["case"]}
json.dump(out, open(sys.argv[2], "w"), indent=1)
PY
echo "$ORIGIN: saved regress/$ID-$ORIGIN.json ($(stat -c %s regress/$ID-$ORIGIN.json) bytes, family $(python3 -c "import json;print(json.load(open('regress/$ID-$ORIGIN.json'))['family'])"))"
