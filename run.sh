#!/bin/bash
# Driver: rebuilds the harness against /repo's current working tree (offline,
# hooks on) and runs one check.  usage: ./run.sh <ID> [quick|thorough]
#        ./run.sh replay <file>
# exit 0 = held, 1 = violation (VIOLATION line printed), 2 = inconclusive.
set -u
HERE="$(cd "$(dirname "$0")" && pwd)"
if [ "${1:-}" = "replay" ] && [ -n "${2:-}" ]; then REPLAY_FILE="$(readlink -f "$2")"; fi
export CARGO_NET_OFFLINE=true
export JSV_VERIF_DIR="$HERE"
cd "$HERE/harness" || exit 2
LOG="$(mktemp)"
if ! cargo build --release --offline >"$LOG" 2>&1; then
	echo "INCONCLUSIVE: the harness does not build against /repo (see below)" >&2
	grep -E "^(error|warning: unused)" -A 12 "$LOG" | head -80 >&2
	rm -f "$LOG"
	exit 2
fi
rm -f "$LOG"
BIN="$HERE/harness/target/release/jsv"
if [ "${1:-}" = "replay" ]; then
	exec "$BIN" replay "$REPLAY_FILE"
fi
ID="${1:?property id}"
TIER="${2:-${VERIF_TIER:-quick}}"
exec "$BIN" check "$ID" --tier "$TIER"
