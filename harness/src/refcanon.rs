//! R3: reference RFC 8785 canonicalizer. Numbers: exact decimal -> nearest
//! double with core's correctly rounded parser, then ECMAScript
//! Number::toString built from core's shortest digits, re-deriving the last
//! digit (closest, ties to even) with exact decimal arithmetic. Independent of
//! `lexical` and `ryu-js`.
use crate::refprint::escape_string;
use crate::refvalue::RefValue;
use std::cmp::Ordering;

// ---------------------------------------------------------------------------
// exact non-negative decimals: digits (most significant first) x 10^exp

#[derive(Clone, Debug, PartialEq, Eq)]
pub struct Dec {
	pub digits: Vec<u8>,
	pub exp: i64,
}

impl Dec {
	pub fn zero() -> Dec {
		Dec { digits: vec![], exp: 0 }
	}

	pub fn is_zero(&self) -> bool {
		self.digits.is_empty()
	}

	fn normalize(mut self) -> Dec {
		let lead = self.digits.iter().take_while(|d| **d == 0).count();
		self.digits.drain(..lead);
		while self.digits.last() == Some(&0) {
			self.digits.pop();
			self.exp += 1;
		}
		if self.digits.is_empty() {
			self.exp = 0;
		}
		self
	}

	/// Parses an unsigned JSON/Rust decimal spelling (`int[.frac][e[+-]exp]`).
	pub fn parse(s: &str) -> Dec {
		let (mant, exp) = match s.find(['e', 'E']) {
			Some(i) => (&s[..i], s[i + 1..].parse::<i64>().expect("exponent")),
			None => (s, 0),
		};
		let (int, frac) = match mant.find('.') {
			Some(i) => (&mant[..i], &mant[i + 1..]),
			None => (mant, ""),
		};
		let digits: Vec<u8> = int.bytes().chain(frac.bytes()).map(|b| b - b'0').collect();
		Dec { digits, exp: exp - frac.len() as i64 }.normalize()
	}

	/// Exact value of a finite non-negative double.
	pub fn from_f64(f: f64) -> Dec {
		assert!(f.is_finite() && f >= 0.0);
		// a double has at most 767 significant decimal digits: this is exact
		Dec::parse(&format!("{:.800e}", f))
	}

	fn aligned(a: &Dec, b: &Dec) -> (Vec<u8>, Vec<u8>, i64) {
		let e = a.exp.min(b.exp);
		let mut x = a.digits.clone();
		x.extend(std::iter::repeat(0).take((a.exp - e) as usize));
		let mut y = b.digits.clone();
		y.extend(std::iter::repeat(0).take((b.exp - e) as usize));
		let n = x.len().max(y.len());
		let mut xx = vec![0; n - x.len()];
		xx.extend(x);
		let mut yy = vec![0; n - y.len()];
		yy.extend(y);
		(xx, yy, e)
	}

	pub fn cmp(&self, o: &Dec) -> Ordering {
		if self.is_zero() || o.is_zero() {
			return (!self.is_zero()).cmp(&!o.is_zero());
		}
		// compare magnitudes first (cheap), then digits
		let ma = self.digits.len() as i64 + self.exp;
		let mb = o.digits.len() as i64 + o.exp;
		if ma != mb {
			return ma.cmp(&mb);
		}
		let (x, y, _) = Dec::aligned(self, o);
		x.cmp(&y)
	}

	pub fn add(&self, o: &Dec) -> Dec {
		let (x, y, e) = Dec::aligned(self, o);
		let mut out = vec![0u8; x.len() + 1];
		let mut carry = 0;
		for i in (0..x.len()).rev() {
			let s = x[i] + y[i] + carry;
			out[i + 1] = s % 10;
			carry = s / 10;
		}
		out[0] = carry;
		Dec { digits: out, exp: e }.normalize()
	}

	/// |self - o|
	pub fn abs_diff(&self, o: &Dec) -> Dec {
		let (x, y, e) = Dec::aligned(self, o);
		let (big, small) = if x >= y { (x, y) } else { (y, x) };
		let mut out = vec![0u8; big.len()];
		let mut borrow = 0i8;
		for i in (0..big.len()).rev() {
			let mut d = big[i] as i8 - small[i] as i8 - borrow;
			if d < 0 {
				d += 10;
				borrow = 1;
			} else {
				borrow = 0;
			}
			out[i] = d as u8;
		}
		Dec { digits: out, exp: e }.normalize()
	}

	pub fn half(&self) -> Dec {
		// x / 2 = x * 5 / 10
		let mut out = vec![0u8; self.digits.len() + 1];
		let mut carry = 0;
		for i in (0..self.digits.len()).rev() {
			let p = self.digits[i] * 5 + carry;
			out[i + 1] = p % 10;
			carry = p / 10;
		}
		out[0] = carry;
		Dec { digits: out, exp: self.exp - 1 }.normalize()
	}

	/// Plain decimal spelling without exponent (may be long).
	pub fn to_plain(&self) -> String {
		if self.is_zero() {
			return "0".into();
		}
		let ds: String = self.digits.iter().map(|d| (b'0' + d) as char).collect();
		if self.exp >= 0 {
			format!("{ds}{}", "0".repeat(self.exp as usize))
		} else {
			let point = ds.len() as i64 + self.exp;
			if point > 0 {
				format!("{}.{}", &ds[..point as usize], &ds[point as usize..])
			} else {
				format!("0.{}{}", "0".repeat((-point) as usize), ds)
			}
		}
	}

	/// Scientific spelling `d.ddde<exp>`.
	pub fn to_sci(&self) -> String {
		if self.is_zero() {
			return "0".into();
		}
		let ds: String = self.digits.iter().map(|d| (b'0' + d) as char).collect();
		let e = self.exp + ds.len() as i64 - 1;
		if ds.len() == 1 {
			format!("{ds}e{e}")
		} else {
			format!("{}.{}e{e}", &ds[..1], &ds[1..])
		}
	}
}

// ---------------------------------------------------------------------------
// numbers

fn next_up(f: f64) -> f64 {
	f64::from_bits(f.to_bits() + 1)
}

/// Nearest double of the (unsigned) decimal spelling; None when it overflows.
pub fn nearest_double(unsigned: &str) -> Option<f64> {
	let f: f64 = unsigned.parse().expect("JSON number grammar is a subset of Rust's");
	if f.is_finite() {
		Some(f)
	} else {
		None
	}
}

/// Verifies with exact arithmetic that `f` is the double nearest to the
/// decimal `unsigned` (ties to even). Used as a cross-check of core's parser.
pub fn verify_nearest(unsigned: &str, f: f64) -> Result<(), String> {
	let v = Dec::parse(unsigned);
	let x = Dec::from_f64(f);
	let d = v.abs_diff(&x);
	let even = f.to_bits() & 1 == 0;
	if f > 0.0 {
		let p = f64::from_bits(f.to_bits() - 1);
		let dp = v.abs_diff(&Dec::from_f64(p));
		match d.cmp(&dp) {
			Ordering::Greater => return Err(format!("{unsigned} is closer to {p:e} than to {f:e}")),
			Ordering::Equal if !even => return Err(format!("{unsigned} is a tie between {p:e} and {f:e}; the even one is {p:e}")),
			_ => {}
		}
	}
	let n = next_up(f);
	if n.is_finite() {
		let dn = v.abs_diff(&Dec::from_f64(n));
		match d.cmp(&dn) {
			Ordering::Greater => return Err(format!("{unsigned} is closer to {n:e} than to {f:e}")),
			Ordering::Equal if !even => return Err(format!("{unsigned} is a tie between {f:e} and {n:e}; the even one is {n:e}")),
			_ => {}
		}
	}
	Ok(())
}

/// Shortest round-trip digits of a positive finite double, closest to its
/// exact value, ties to even: returns (digit string without trailing zeros, n)
/// with value ~ 0.DIGITS x 10^n (ECMAScript's n).
pub fn shortest_digits(f: f64) -> (String, i64) {
	assert!(f.is_finite() && f > 0.0);
	let s = format!("{:e}", f);
	let (mant, exp) = s.split_once('e').unwrap();
	let e: i64 = exp.parse().unwrap();
	let d: String = mant.chars().filter(|c| *c != '.').collect();
	let k = d.len() as i64;
	let m: u128 = d.parse().unwrap();
	let scale = e - (k - 1); // value = m x 10^scale
	let exact = Dec::from_f64(f);
	let mut best: Option<(u128, Dec)> = None;
	for cand in [m.wrapping_sub(1), m, m + 1] {
		if cand == 0 || cand == u128::MAX {
			continue;
		}
		// must have exactly k digits (or be 10^k, which would be shorter and is handled by stripping)
		let text = format!("{cand}e{scale}");
		if text.parse::<f64>().ok() != Some(f) {
			continue;
		}
		let c = Dec { digits: cand.to_string().bytes().map(|b| b - b'0').collect(), exp: scale }.normalize();
		let dist = c.abs_diff(&exact);
		best = match best {
			None => Some((cand, dist)),
			Some((bc, bd)) => match dist.cmp(&bd) {
				Ordering::Less => Some((cand, dist)),
				Ordering::Greater => Some((bc, bd)),
				Ordering::Equal => {
					if cand % 2 == 0 {
						Some((cand, dist))
					} else {
						Some((bc, bd))
					}
				}
			},
		};
	}
	let (m, _) = best.expect("core's shortest digits must round-trip");
	let mut ds = m.to_string();
	let mut scale = scale;
	while ds.ends_with('0') && ds.len() > 1 {
		ds.pop();
		scale += 1;
	}
	let n = scale + ds.len() as i64;
	(ds, n)
}

/// ECMAScript Number::toString for a finite double.
pub fn es_number_to_string(f: f64) -> String {
	if f == 0.0 {
		return "0".into();
	}
	let neg = f < 0.0;
	let (ds, n) = shortest_digits(f.abs());
	let k = ds.len() as i64;
	let body = if k <= n && n <= 21 {
		format!("{ds}{}", "0".repeat((n - k) as usize))
	} else if 0 < n && n <= 21 {
		format!("{}.{}", &ds[..n as usize], &ds[n as usize..])
	} else if -6 < n && n <= 0 {
		format!("0.{}{ds}", "0".repeat((-n) as usize))
	} else {
		let e = n - 1;
		let sign = if e < 0 { '-' } else { '+' };
		if k == 1 {
			format!("{ds}e{sign}{}", e.abs())
		} else {
			format!("{}.{}e{sign}{}", &ds[..1], &ds[1..], e.abs())
		}
	};
	if neg {
		format!("-{body}")
	} else {
		body
	}
}

/// Canonical spelling of a JSON number; None if it overflows the double range.
pub fn canonical_number(spelling: &str) -> Option<String> {
	let (neg, unsigned) = match spelling.strip_prefix('-') {
		Some(u) => (true, u),
		None => (false, spelling),
	};
	let f = nearest_double(unsigned)?;
	Some(es_number_to_string(if neg { -f } else { f }))
}

pub fn number_to_f64(spelling: &str) -> f64 {
	spelling.parse().expect("number")
}

// ---------------------------------------------------------------------------
// values

pub fn utf16_cmp(a: &str, b: &str) -> Ordering {
	a.encode_utf16().cmp(b.encode_utf16())
}

/// RFC 8785 canonical form of an I-JSON value (no duplicate keys; numbers in
/// double range). Panics on a number that overflows.
pub fn canonical(v: &RefValue) -> String {
	let mut out = String::new();
	canon_into(v, &mut out);
	out
}

fn canon_into(v: &RefValue, out: &mut String) {
	match v {
		RefValue::Null => out.push_str("null"),
		RefValue::Bool(true) => out.push_str("true"),
		RefValue::Bool(false) => out.push_str("false"),
		RefValue::Num(n) => out.push_str(&canonical_number(n).expect("number outside the double range")),
		RefValue::Str(s) => escape_string(s, out),
		RefValue::Arr(a) => {
			out.push('[');
			for (i, x) in a.iter().enumerate() {
				if i > 0 {
					out.push(',');
				}
				canon_into(x, out);
			}
			out.push(']');
		}
		RefValue::Obj(o) => {
			let mut es: Vec<&(String, RefValue)> = o.iter().collect();
			es.sort_by(|a, b| utf16_cmp(&a.0, &b.0));
			out.push('{');
			for (i, (k, x)) in es.into_iter().enumerate() {
				if i > 0 {
					out.push(',');
				}
				escape_string(k, out);
				out.push(':');
				canon_into(x, out);
			}
			out.push('}');
		}
	}
}

/// RFC 8785 Appendix B: IEEE-754 bit pattern -> expected serialization.
pub const RFC8785_APPENDIX_B: &[(u64, &str)] = &[
	(0x0000000000000000, "0"),
	(0x8000000000000000, "0"),
	(0x0000000000000001, "5e-324"),
	(0x8000000000000001, "-5e-324"),
	(0x7fefffffffffffff, "1.7976931348623157e+308"),
	(0xffefffffffffffff, "-1.7976931348623157e+308"),
	(0x4340000000000000, "9007199254740992"),
	(0xc340000000000000, "-9007199254740992"),
	(0x4430000000000000, "295147905179352830000"),
	(0x44b52d02c7e14af5, "9.999999999999997e+22"),
	(0x44b52d02c7e14af6, "1e+23"),
	(0x44b52d02c7e14af7, "1.0000000000000001e+23"),
	(0x444b1ae4d6e2ef4e, "999999999999999700000"),
	(0x444b1ae4d6e2ef4f, "999999999999999900000"),
	(0x444b1ae4d6e2ef50, "1e+21"),
	(0x3eb0c6f7a0b5ed8c, "9.999999999999997e-7"),
	(0x3eb0c6f7a0b5ed8d, "0.000001"),
	(0x41b3de4355555553, "333333333.3333332"),
	(0x41b3de4355555554, "333333333.33333325"),
	(0x41b3de4355555555, "333333333.3333333"),
	(0x41b3de4355555556, "333333333.3333334"),
	(0x41b3de4355555557, "333333333.33333343"),
	(0xbecbf647612f3696, "-0.0000033333333333333333"),
	(0x43143ff3c1cb0959, "1424953923781206.2"),
];

#[cfg(test)]
mod tests {
	use super::*;

	#[test]
	fn appendix_b() {
		for (bits, want) in RFC8785_APPENDIX_B {
			assert_eq!(&es_number_to_string(f64::from_bits(*bits)), want, "{bits:#x}");
		}
	}

	#[test]
	fn dec_arith() {
		let a = Dec::parse("12.5");
		let b = Dec::parse("0.75e1");
		assert_eq!(a.add(&b).to_plain(), "20");
		assert_eq!(a.abs_diff(&b).to_plain(), "5");
		assert_eq!(a.half().to_plain(), "6.25");
		assert_eq!(Dec::from_f64(0.1).to_plain(), "0.1000000000000000055511151231257827021181583404541015625");
		assert_eq!(Dec::parse("0.001").to_sci(), "1e-3");
		assert!(verify_nearest("0.1", 0.1).is_ok());
		assert!(verify_nearest("0.1", f64::from_bits(0.1f64.to_bits() + 1)).is_err());
	}

	#[test]
	fn layouts() {
		assert_eq!(canonical_number("1E30").unwrap(), "1e+30");
		assert_eq!(canonical_number("4.50").unwrap(), "4.5");
		assert_eq!(canonical_number("2e-3").unwrap(), "0.002");
		assert_eq!(canonical_number("0.000000000000000000000000001").unwrap(), "1e-27");
		assert_eq!(canonical_number("333333333.33333329").unwrap(), "333333333.3333333");
		assert_eq!(canonical_number("-0.0").unwrap(), "0");
		assert_eq!(canonical_number("1e400"), None);
		assert_eq!(canonical_number("100").unwrap(), "100");
		assert_eq!(canonical_number("1e21").unwrap(), "1e+21");
		assert_eq!(canonical_number("123456789012345678901").unwrap(), "123456789012345680000");
	}

	#[test]
	fn key_order() {
		// RFC 8785 section 3.2.3 example
		let v = RefValue::Obj(vec![
			("\u{20ac}".into(), RefValue::str("Euro Sign")),
			("\r".into(), RefValue::str("Carriage Return")),
			("\u{fb33}".into(), RefValue::str("Hebrew Letter Dalet With Dagesh")),
			("1".into(), RefValue::str("One")),
			("\u{1f600}".into(), RefValue::str("Emoji: Grinning Face")),
			("\u{80}".into(), RefValue::str("Control")),
			("\u{f6}".into(), RefValue::str("Latin Small Letter O With Diaeresis")),
		]);
		let c = canonical(&v);
		let order: Vec<usize> = ["Carriage Return", "One", "Control", "Latin Small", "Euro Sign", "Emoji", "Hebrew"].iter().map(|s| c.find(s).unwrap()).collect();
		let mut sorted = order.clone();
		sorted.sort();
		assert_eq!(order, sorted);
	}
}
