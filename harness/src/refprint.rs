//! R2: reference printers. (a) compact serializer with RFC 8785 string escaping,
//! (b) layout printer written from the rustdoc of `print::Options` / `Limit`.
use crate::refvalue::RefValue;
use json_syntax::print::{Indent, Limit, Options};
use proptest::prelude::*;

// ---------------------------------------------------------------------------
// (a) compact

pub fn escape_string(s: &str, out: &mut String) {
	out.push('"');
	for c in s.chars() {
		match c {
			'"' => out.push_str("\\\""),
			'\\' => out.push_str("\\\\"),
			'\u{8}' => out.push_str("\\b"),
			'\t' => out.push_str("\\t"),
			'\n' => out.push_str("\\n"),
			'\u{c}' => out.push_str("\\f"),
			'\r' => out.push_str("\\r"),
			c if (c as u32) < 0x20 => {
				out.push_str("\\u00");
				out.push(char::from_digit((c as u32) >> 4, 16).unwrap());
				out.push(char::from_digit((c as u32) & 15, 16).unwrap());
			}
			c => out.push(c),
		}
	}
	out.push('"');
}

pub fn compact(v: &RefValue) -> String {
	let mut out = String::new();
	compact_into(v, &mut out);
	out
}

fn compact_into(v: &RefValue, out: &mut String) {
	match v {
		RefValue::Null => out.push_str("null"),
		RefValue::Bool(true) => out.push_str("true"),
		RefValue::Bool(false) => out.push_str("false"),
		RefValue::Num(n) => out.push_str(n),
		RefValue::Str(s) => escape_string(s, out),
		RefValue::Arr(a) => {
			out.push('[');
			for (i, x) in a.iter().enumerate() {
				if i > 0 {
					out.push(',');
				}
				compact_into(x, out);
			}
			out.push(']');
		}
		RefValue::Obj(o) => {
			out.push('{');
			for (i, (k, x)) in o.iter().enumerate() {
				if i > 0 {
					out.push(',');
				}
				escape_string(k, out);
				out.push(':');
				compact_into(x, out);
			}
			out.push('}');
		}
	}
}

// ---------------------------------------------------------------------------
// (b) layout

/// Plain copy of the option record (the crate's struct is non_exhaustive).
#[derive(Clone, Debug, PartialEq, Eq, Hash)]
pub struct Opts {
	pub indent_tabs: bool,
	pub indent_n: u8,
	pub array_begin: usize,
	pub array_end: usize,
	pub array_empty: usize,
	pub array_before_comma: usize,
	pub array_after_comma: usize,
	pub array_limit: Lim,
	pub object_begin: usize,
	pub object_end: usize,
	pub object_empty: usize,
	pub object_before_comma: usize,
	pub object_after_comma: usize,
	pub object_before_colon: usize,
	pub object_after_colon: usize,
	pub object_limit: Lim,
}

#[derive(Clone, Copy, Debug, PartialEq, Eq, Hash)]
pub enum Lim {
	None,
	Always,
	Item(usize),
	Width(usize),
	ItemOrWidth(usize, usize),
}

impl Lim {
	fn to_crate(self) -> Option<Limit> {
		match self {
			Lim::None => None,
			Lim::Always => Some(Limit::Always),
			Lim::Item(n) => Some(Limit::Item(n)),
			Lim::Width(w) => Some(Limit::Width(w)),
			Lim::ItemOrWidth(n, w) => Some(Limit::ItemOrWidth(n, w)),
		}
	}
	fn from_crate(l: Option<Limit>) -> Lim {
		match l {
			None => Lim::None,
			Some(Limit::Always) => Lim::Always,
			Some(Limit::Item(n)) => Lim::Item(n),
			Some(Limit::Width(w)) => Lim::Width(w),
			Some(Limit::ItemOrWidth(n, w)) => Lim::ItemOrWidth(n, w),
		}
	}
	/// Does the limit force a container with `len` children and one-line width `width` to expand?
	fn trips(self, len: usize, width: usize) -> bool {
		match self {
			Lim::None => false,
			Lim::Always => true,
			Lim::Item(n) => len > n,
			Lim::Width(w) => width > w,
			Lim::ItemOrWidth(n, w) => len > n || width > w,
		}
	}
}

impl Opts {
	pub fn to_crate(&self) -> Options {
		let mut o = Options::compact();
		o.indent = if self.indent_tabs { Indent::Tabs(self.indent_n) } else { Indent::Spaces(self.indent_n) };
		o.array_begin = self.array_begin;
		o.array_end = self.array_end;
		o.array_empty = self.array_empty;
		o.array_before_comma = self.array_before_comma;
		o.array_after_comma = self.array_after_comma;
		o.array_limit = self.array_limit.to_crate();
		o.object_begin = self.object_begin;
		o.object_end = self.object_end;
		o.object_empty = self.object_empty;
		o.object_before_comma = self.object_before_comma;
		o.object_after_comma = self.object_after_comma;
		o.object_before_colon = self.object_before_colon;
		o.object_after_colon = self.object_after_colon;
		o.object_limit = self.object_limit.to_crate();
		o
	}

	/// Reads a preset of the crate (so that the reference follows the presets' documented values).
	pub fn from_crate(o: &Options) -> Opts {
		let (indent_tabs, indent_n) = match o.indent {
			Indent::Spaces(n) => (false, n),
			Indent::Tabs(n) => (true, n),
		};
		Opts {
			indent_tabs,
			indent_n,
			array_begin: o.array_begin,
			array_end: o.array_end,
			array_empty: o.array_empty,
			array_before_comma: o.array_before_comma,
			array_after_comma: o.array_after_comma,
			array_limit: Lim::from_crate(o.array_limit),
			object_begin: o.object_begin,
			object_end: o.object_end,
			object_empty: o.object_empty,
			object_before_comma: o.object_before_comma,
			object_after_comma: o.object_after_comma,
			object_before_colon: o.object_before_colon,
			object_after_colon: o.object_after_colon,
			object_limit: Lim::from_crate(o.object_limit),
		}
	}

	/// The documented presets, written out by hand from the rustdoc/source comments.
	pub fn preset(name: &str) -> Opts {
		let base = Opts {
			indent_tabs: false,
			indent_n: 0,
			array_begin: 0,
			array_end: 0,
			array_empty: 0,
			array_before_comma: 0,
			array_after_comma: 0,
			array_limit: Lim::None,
			object_begin: 0,
			object_end: 0,
			object_empty: 0,
			object_before_comma: 0,
			object_after_comma: 0,
			object_before_colon: 0,
			object_after_colon: 0,
			object_limit: Lim::None,
		};
		match name {
			"compact" => base,
			"inline" => Opts {
				array_begin: 1,
				array_end: 1,
				array_after_comma: 1,
				object_begin: 1,
				object_end: 1,
				object_after_comma: 1,
				object_after_colon: 1,
				..base
			},
			"pretty" => Opts {
				indent_n: 2,
				array_begin: 1,
				array_end: 1,
				array_after_comma: 1,
				array_limit: Lim::ItemOrWidth(1, 16),
				object_begin: 1,
				object_end: 1,
				object_after_comma: 1,
				object_after_colon: 1,
				object_limit: Lim::ItemOrWidth(1, 16),
				..base
			},
			_ => panic!("unknown preset"),
		}
	}
}

fn sp(n: usize, out: &mut String) {
	for _ in 0..n {
		out.push(' ');
	}
}

/// Layout of one node: its one-line text if it is laid out on one line.
pub struct Node {
	/// `Some(text)` iff printed on one line.
	pub line: Option<String>,
	pub children: Vec<Node>,
	pub is_container: bool,
	pub is_array: bool,
	pub len: usize,
	/// One-line width regardless of the limit (None if a child is expanded).
	pub natural_width: Option<usize>,
}

pub fn layout(v: &RefValue, o: &Opts) -> Node {
	match v {
		RefValue::Arr(a) => {
			let children: Vec<Node> = a.iter().map(|x| layout(x, o)).collect();
			let mut line = None;
			let mut natural = None;
			if children.iter().all(|c| c.line.is_some()) {
				let mut s = String::from("[");
				if a.is_empty() {
					sp(o.array_empty, &mut s);
				} else {
					sp(o.array_begin, &mut s);
					for (i, c) in children.iter().enumerate() {
						if i > 0 {
							sp(o.array_before_comma, &mut s);
							s.push(',');
							sp(o.array_after_comma, &mut s);
						}
						s.push_str(c.line.as_ref().unwrap());
					}
					sp(o.array_end, &mut s);
				}
				s.push(']');
				let width = s.chars().count();
				natural = Some(width);
				if !o.array_limit.trips(a.len(), width) {
					line = Some(s);
				}
			}
			Node { line, children, is_container: true, is_array: true, len: a.len(), natural_width: natural }
		}
		RefValue::Obj(e) => {
			let children: Vec<Node> = e.iter().map(|(_, x)| layout(x, o)).collect();
			let mut line = None;
			let mut natural = None;
			if children.iter().all(|c| c.line.is_some()) {
				let mut s = String::from("{");
				if e.is_empty() {
					sp(o.object_empty, &mut s);
				} else {
					sp(o.object_begin, &mut s);
					for (i, ((k, _), c)) in e.iter().zip(&children).enumerate() {
						if i > 0 {
							sp(o.object_before_comma, &mut s);
							s.push(',');
							sp(o.object_after_comma, &mut s);
						}
						escape_string(k, &mut s);
						sp(o.object_before_colon, &mut s);
						s.push(':');
						sp(o.object_after_colon, &mut s);
						s.push_str(c.line.as_ref().unwrap());
					}
					sp(o.object_end, &mut s);
				}
				s.push('}');
				let width = s.chars().count();
				natural = Some(width);
				if !o.object_limit.trips(e.len(), width) {
					line = Some(s);
				}
			}
			Node { line, children, is_container: true, is_array: false, len: e.len(), natural_width: natural }
		}
		scalar => {
			let s = compact(scalar);
			Node { natural_width: Some(s.chars().count()), line: Some(s), children: vec![], is_container: false, is_array: false, len: 0 }
		}
	}
}

fn indent(o: &Opts, depth: usize, out: &mut String) {
	for _ in 0..depth * o.indent_n as usize {
		out.push(if o.indent_tabs { '\t' } else { ' ' });
	}
}

fn emit(v: &RefValue, node: &Node, o: &Opts, depth: usize, out: &mut String) {
	if let Some(l) = &node.line {
		out.push_str(l);
		return;
	}
	match v {
		RefValue::Arr(a) => {
			out.push_str("[\n");
			for (i, (x, c)) in a.iter().zip(&node.children).enumerate() {
				if i > 0 {
					sp(o.array_before_comma, out);
					out.push_str(",\n");
				}
				indent(o, depth + 1, out);
				emit(x, c, o, depth + 1, out);
			}
			if !a.is_empty() {
				out.push('\n');
			}
			indent(o, depth, out);
			out.push(']');
		}
		RefValue::Obj(e) => {
			out.push_str("{\n");
			for (i, ((k, x), c)) in e.iter().zip(&node.children).enumerate() {
				if i > 0 {
					sp(o.object_before_comma, out);
					out.push_str(",\n");
				}
				indent(o, depth + 1, out);
				escape_string(k, out);
				sp(o.object_before_colon, out);
				out.push(':');
				sp(o.object_after_colon, out);
				emit(x, c, o, depth + 1, out);
			}
			if !e.is_empty() {
				out.push('\n');
			}
			indent(o, depth, out);
			out.push('}');
		}
		_ => unreachable!("scalars are always one line"),
	}
}

pub fn print_layout(v: &RefValue, o: &Opts) -> (String, Node) {
	let node = layout(v, o);
	let mut out = String::new();
	emit(v, &node, o, 0, &mut out);
	(out, node)
}

/// (has an expanded container, has an inline container)
pub fn layout_mix(node: &Node) -> (bool, bool) {
	let mut r = (false, false);
	fn rec(n: &Node, r: &mut (bool, bool)) {
		if n.is_container {
			if n.line.is_some() {
				r.1 = true
			} else {
				r.0 = true
			}
		}
		for c in &n.children {
			rec(c, r)
		}
	}
	rec(node, &mut r);
	r
}

/// One-line widths and lengths of all containers, in pre-order: (is_array, len, natural width).
pub fn container_metrics(node: &Node, out: &mut Vec<(bool, usize, Option<usize>)>) {
	if node.is_container {
		out.push((node.is_array, node.len, node.natural_width));
	}
	for c in &node.children {
		container_metrics(c, out);
	}
}

// ---------------------------------------------------------------------------
// option strategies

pub fn arb_lim() -> BoxedStrategy<Lim> {
	prop_oneof![
		2 => Just(Lim::None),
		1 => Just(Lim::Always),
		2 => (0usize..=4).prop_map(Lim::Item),
		3 => (0usize..=40).prop_map(Lim::Width),
		2 => ((0usize..=4), (0usize..=40)).prop_map(|(n, w)| Lim::ItemOrWidth(n, w)),
	]
	.boxed()
}

pub fn arb_custom_opts() -> BoxedStrategy<Opts> {
	(
		(any::<bool>(), 0u8..=4),
		(0usize..=3, 0usize..=3, 0usize..=3, 0usize..=3, 0usize..=3, arb_lim()),
		(0usize..=3, 0usize..=3, 0usize..=3, 0usize..=3, 0usize..=3, 0usize..=3, 0usize..=3, arb_lim()),
	)
		.prop_map(|((tabs, n), a, ob)| Opts {
			indent_tabs: tabs,
			indent_n: if tabs { n.min(2) } else { n },
			array_begin: a.0,
			array_end: a.1,
			array_empty: a.2,
			array_before_comma: a.3,
			array_after_comma: a.4,
			array_limit: a.5,
			object_begin: ob.0,
			object_end: ob.1,
			object_empty: ob.2,
			object_before_comma: ob.3,
			object_after_comma: ob.4,
			object_before_colon: ob.5,
			object_after_colon: ob.6,
			object_limit: ob.7,
		})
		.boxed()
}

pub fn arb_opts() -> BoxedStrategy<Opts> {
	prop_oneof![
		1 => prop::sample::select(vec!["compact", "inline", "pretty"]).prop_map(Opts::preset),
		8 => arb_custom_opts(),
	]
	.boxed()
}

pub fn opts_json(o: &Opts) -> serde_json::Value {
	serde_json::json!({
		"indent": [if o.indent_tabs { "tabs" } else { "spaces" }, o.indent_n],
		"array": [o.array_begin, o.array_end, o.array_empty, o.array_before_comma, o.array_after_comma],
		"array_limit": lim_json(o.array_limit),
		"object": [o.object_begin, o.object_end, o.object_empty, o.object_before_comma, o.object_after_comma, o.object_before_colon, o.object_after_colon],
		"object_limit": lim_json(o.object_limit),
	})
}

fn lim_json(l: Lim) -> serde_json::Value {
	match l {
		Lim::None => serde_json::json!(null),
		Lim::Always => serde_json::json!("always"),
		Lim::Item(n) => serde_json::json!({"item": n}),
		Lim::Width(w) => serde_json::json!({"width": w}),
		Lim::ItemOrWidth(n, w) => serde_json::json!({"item": n, "width": w}),
	}
}

fn lim_from_json(j: &serde_json::Value) -> Lim {
	if j.is_null() {
		Lim::None
	} else if j == "always" {
		Lim::Always
	} else {
		match (j.get("item").and_then(|x| x.as_u64()), j.get("width").and_then(|x| x.as_u64())) {
			(Some(n), Some(w)) => Lim::ItemOrWidth(n as usize, w as usize),
			(Some(n), None) => Lim::Item(n as usize),
			(None, Some(w)) => Lim::Width(w as usize),
			_ => panic!("bad limit {j}"),
		}
	}
}

pub fn opts_from_json(j: &serde_json::Value) -> Opts {
	let u = |x: &serde_json::Value| x.as_u64().unwrap() as usize;
	let a = &j["array"];
	let o = &j["object"];
	Opts {
		indent_tabs: j["indent"][0] == "tabs",
		indent_n: j["indent"][1].as_u64().unwrap() as u8,
		array_begin: u(&a[0]),
		array_end: u(&a[1]),
		array_empty: u(&a[2]),
		array_before_comma: u(&a[3]),
		array_after_comma: u(&a[4]),
		array_limit: lim_from_json(&j["array_limit"]),
		object_begin: u(&o[0]),
		object_end: u(&o[1]),
		object_empty: u(&o[2]),
		object_before_comma: u(&o[3]),
		object_after_comma: u(&o[4]),
		object_before_colon: u(&o[5]),
		object_after_colon: u(&o[6]),
		object_limit: lim_from_json(&j["object_limit"]),
	}
}

#[cfg(test)]
mod tests {
	use super::*;

	#[test]
	fn presets_match_crate() {
		assert_eq!(Opts::from_crate(&Options::compact()), Opts::preset("compact"));
		assert_eq!(Opts::from_crate(&Options::inline()), Opts::preset("inline"));
		assert_eq!(Opts::from_crate(&Options::pretty()), Opts::preset("pretty"));
	}

	#[test]
	fn layout_examples() {
		let v = RefValue::Arr(vec![RefValue::num("1"), RefValue::Arr(vec![]), RefValue::Obj(vec![("a".into(), RefValue::Null)])]);
		assert_eq!(print_layout(&v, &Opts::preset("compact")).0, "[1,[],{\"a\":null}]");
		assert_eq!(print_layout(&v, &Opts::preset("inline")).0, "[ 1, [], { \"a\": null } ]");
		assert_eq!(print_layout(&v, &Opts::preset("pretty")).0, "[\n  1,\n  [],\n  { \"a\": null }\n]");
	}
}
