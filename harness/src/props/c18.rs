//! C18 — conversion to and from serde_json::Value round-trips without loss or panic.
use crate::framework::{guarded, run_proptest, Ctx, Fam, Outcome};
use crate::gen;
use crate::refvalue::RefValue;
use json_syntax::Value;
use proptest::prelude::*;
use serde_json::{json, Value as J};

pub const SIG_A: &str = "C18-a:into_serde_json_panics_on_a_number_beyond_the_double_range";
pub const SIG_B: &str = "C18-b:non_integer_number_bridged_as_text_is_misrounded_by_serde_json_default_float_parser";

fn arb_sj_number() -> BoxedStrategy<serde_json::Number> {
	prop_oneof![
		3 => any::<u64>().prop_map(serde_json::Number::from),
		3 => any::<i64>().prop_map(serde_json::Number::from),
		1 => prop::sample::select(vec![u64::MAX, 0, 1, i64::MAX as u64, i64::MAX as u64 + 1]).prop_map(serde_json::Number::from),
		1 => prop::sample::select(vec![i64::MIN, -1, i64::MAX]).prop_map(serde_json::Number::from),
		4 => any::<u64>().prop_filter_map("finite", |b| serde_json::Number::from_f64(f64::from_bits(b))),
		2 => prop::sample::select(vec![0.0, -0.0, 1.0, 1.5, -2.5, 0.1, 1e300, -1e300, 1e-300, 5e-324, f64::MIN_POSITIVE, f64::MAX, f64::MIN, 9007199254740993.0, 1e21, 1e-7, 123456789.125]).prop_map(|f| serde_json::Number::from_f64(f).unwrap()),
		2 => (any::<i32>(), 0i32..6).prop_map(|(i, d)| serde_json::Number::from_f64(i as f64 / 10f64.powi(d)).unwrap()),
	]
	.boxed()
}

fn arb_sj_value() -> BoxedStrategy<J> {
	let leaf = prop_oneof![
		1 => Just(J::Null),
		1 => any::<bool>().prop_map(J::Bool),
		4 => arb_sj_number().prop_map(J::Number),
		3 => gen::arb_string().prop_map(J::String),
	];
	let wide = proptest::collection::vec((gen::arb_long_key(), leaf.clone()), 9..90).prop_map(|es| J::Object(es.into_iter().collect()));
	// objects using serde_json's private number token as a key (alone or not, with numeric strings or anything else)
	let token_obj = (prop_oneof![3 => prop::sample::select(vec!["1.5", "-0", "12e3", "0", "1", "x", ""]).prop_map(|s| J::String(s.to_string())), 1 => leaf.clone()], proptest::option::of((gen::arb_key(true), leaf.clone())))
		.prop_map(|(v, extra)| {
			let mut m = serde_json::Map::new();
			m.insert("$serde_json::private::Number".to_string(), v);
			if let Some((k, x)) = extra {
				m.insert(k, x);
			}
			J::Object(m)
		});
	let leaf = prop_oneof![30 => leaf, 1 => token_obj].boxed();
	let tree = leaf.clone().prop_recursive(4, 48, 6, |inner| {
		prop_oneof![
			1 => proptest::collection::vec(inner.clone(), 0..=5).prop_map(J::Array),
			2 => proptest::collection::vec((gen::arb_key(true), inner), 0..=6).prop_map(|es| J::Object(es.into_iter().collect())),
		]
	});
	prop_oneof![8 => tree, 1 => wide.clone(), 1 => proptest::collection::vec(wide, 1..4).prop_map(J::Array)].boxed()
}

/// Is this token a non-integer on which serde_json's own FromStr differs from the correctly rounded double?
fn sj_misrounds(token: &str) -> Option<(f64, f64)> {
	if token.parse::<u64>().is_ok() || token.parse::<i64>().is_ok() {
		return None;
	}
	let theirs = token.parse::<serde_json::Number>().ok()?.as_f64()?;
	let exact: f64 = token.parse().ok()?;
	if theirs != exact {
		Some((theirs, exact))
	} else {
		None
	}
}

/// serde_json -> json-syntax -> serde_json
pub fn from_into(j: &J) -> Result<(bool, Vec<&'static str>), (String, Option<&'static str>)> {
	let v = guarded(|| Value::from_serde_json(j.clone())).map_err(|p| (format!("from_serde_json panicked: {p}"), None))?;
	// side condition: the number text stored is exactly serde_json's Display text
	fn texts(j: &J, v: &Value, path: &str) -> Result<(), String> {
		match (j, v) {
			(J::Number(n), Value::Number(m)) => {
				if n.to_string() != m.as_str() {
					return Err(format!("{path}: serde_json number {n} stored as {}", m.as_str()));
				}
				Ok(())
			}
			(J::Array(a), Value::Array(b)) if a.len() == b.len() => a.iter().zip(b).enumerate().try_for_each(|(i, (x, y))| texts(x, y, &format!("{path}[{i}]"))),
			(J::Object(a), Value::Object(b)) if a.len() == b.len() => a.iter().zip(b.iter()).try_for_each(|((k, x), e)| {
				if k != e.key.as_str() {
					return Err(format!("{path}: key {k:?} became {:?}", e.key.as_str()));
				}
				texts(x, &e.value, &format!("{path}.{k}"))
			}),
			(J::Null, Value::Null) => Ok(()),
			(J::Bool(x), Value::Boolean(y)) if x == y => Ok(()),
			(J::String(x), Value::String(y)) if x == y.as_str() => Ok(()),
			_ => Err(format!("{path}: {j} became {v}")),
		}
	}
	texts(j, &v, "$").map_err(|m| (format!("from_serde_json: {m}"), None))?;
	let back = guarded(|| v.clone().into_serde_json()).map_err(|p| (format!("into_serde_json panicked: {p}"), None))?;
	// the generic serde routes between the two value types (`to_value(&serde_json_value)`, `from_value::<serde_json::Value>`)
	// must agree with the dedicated conversions wherever both are exact: integer-only values without the private token
	fn plain(j: &J) -> bool {
		match j {
			J::Number(n) => !n.is_f64(),
			J::Array(a) => a.iter().all(plain),
			J::Object(o) => o.iter().all(|(k, x)| !k.starts_with("$serde_json::private") && plain(x)),
			_ => true,
		}
	}
	if plain(j) {
		match guarded(|| json_syntax::to_value(j)) {
			Ok(Ok(v2)) if v2 == v => {}
			Ok(Ok(v2)) => return Err((format!("to_value(&serde_json_value) = {v2}, from_serde_json gives {v}"), None)),
			Ok(Err(e)) => return Err((format!("to_value(&serde_json_value) failed on an integer-only value: {e}"), None)),
			Err(p) => return Err((format!("to_value(&serde_json_value) panicked: {p}"), None)),
		}
		match guarded(|| json_syntax::from_value::<J>(v.clone())) {
			Ok(Ok(j2)) if &j2 == j => {}
			Ok(Ok(j2)) => return Err((format!("from_value::<serde_json::Value> = {j2}, the original serde_json value is {j}"), None)),
			Ok(Err(e)) => return Err((format!("from_value::<serde_json::Value> failed on an integer-only value: {e}"), None)),
			Err(p) => return Err((format!("from_value::<serde_json::Value> panicked: {p}"), None)),
		}
	}
	if &back == j {
		let via_from: J = v.clone().into();
		let via_from2: Value = j.clone().into();
		if via_from != back || via_from2 != v {
			return Err(("the From impls disagree with from_serde_json / into_serde_json".into(), None));
		}
		let floats = has_non_integer_float(j);
		let big = matches!(j, J::Object(o) if o.len() >= 2) || j.as_array().map(|a| a.iter().any(|x| matches!(x, J::Object(o) if o.len() >= 2))).unwrap_or(false);
		return Ok((floats && big, if floats { vec!["non_integer_float"] } else { vec![] }));
	}
	// find the first difference
	fn diff(a: &J, b: &J, path: &str) -> Option<(String, J, J)> {
		match (a, b) {
			(J::Array(x), J::Array(y)) if x.len() == y.len() => x.iter().zip(y).enumerate().find_map(|(i, (p, q))| diff(p, q, &format!("{path}[{i}]"))),
			(J::Object(x), J::Object(y)) if x.len() == y.len() && x.keys().eq(y.keys()) => x.iter().find_map(|(k, p)| diff(p, &y[k], &format!("{path}.{k}"))),
			(p, q) if p == q => None,
			(p, q) => Some((path.to_string(), p.clone(), q.clone())),
		}
	}
	let (path, was, now) = diff(j, &back, "$").unwrap_or(("$".into(), j.clone(), back.clone()));
	if let (J::Number(n), J::Number(m)) = (&was, &now) {
		let token = n.to_string();
		if let (Some((theirs, exact)), Some(got)) = (sj_misrounds(&token), m.as_f64()) {
			let ulps = (theirs.to_bits() as i64 - exact.to_bits() as i64).unsigned_abs();
			if got == theirs && ulps <= 8 {
				return Err((format!("{path}: {n} came back as {m}: the text bridge hands {token} to serde_json's default-feature float parser, which mis-rounds it by {ulps} ulp(s) on its own"), Some(SIG_B)));
			}
		}
	}
	Err((format!("{path}: {was} came back as {now}"), None))
}

fn has_non_integer_float(j: &J) -> bool {
	match j {
		J::Number(n) => n.is_f64() && n.as_f64().map(|f| f.fract() != 0.0).unwrap_or(false),
		J::Array(a) => a.iter().any(has_non_integer_float),
		J::Object(o) => o.values().any(has_non_integer_float),
		_ => false,
	}
}

/// Normal form up to entry order and number spelling.
fn nf(v: &RefValue) -> String {
	match v {
		RefValue::Num(n) => {
			if !n.contains(['.', 'e', 'E']) {
				if let Ok(i) = n.parse::<i128>() {
					if (i64::MIN as i128..=u64::MAX as i128).contains(&i) {
						return format!("i{i}");
					}
				}
			}
			let f: f64 = n.parse().unwrap();
			if f.fract() == 0.0 && f.abs() < 1.8e19 && (f as i128 as f64) == f {
				// an integral double within the 64-bit range may legitimately come back spelled as an integer
				return format!("i{}", f as i128);
			}
			format!("f{:016x}", if f == 0.0 { 0 } else { f.to_bits() })
		}
		RefValue::Arr(a) => format!("[{}]", a.iter().map(nf).collect::<Vec<_>>().join(",")),
		RefValue::Obj(o) => {
			let mut es: Vec<String> = o.iter().map(|(k, x)| format!("{k:?}:{}", nf(x))).collect();
			es.sort();
			format!("{{{}}}", es.join(","))
		}
		other => super::c15::normal_form(other),
	}
}

/// json-syntax -> serde_json -> json-syntax on the stated domain
pub fn into_from(v: &RefValue) -> Result<(bool, Vec<&'static str>), (String, Option<&'static str>)> {
	// the value as constructed, and the same value after in-place canonicalization / sorting of its objects
	// (the round trip is then compared with what the accessors read back)
	into_from_value(v, v.to_value())?;
	let h = crate::framework::hash64(&crate::refprint::compact(v));
	let mut value = v.to_value_route((h % 7) as u8);
	if h & 8 == 0 {
		value.canonicalize();
	} else if let Some(o) = value.as_object_mut() {
		o.sort();
	}
	let model = RefValue::from_value(&value);
	into_from_value(&model, value)
}

fn into_from_value(v: &RefValue, value: Value) -> Result<(bool, Vec<&'static str>), (String, Option<&'static str>)> {
	let j = guarded(|| value.clone().into_serde_json()).map_err(|p| (format!("into_serde_json panicked: {p}"), None))?;
	// side condition: each number equals what serde_json's own FromStr makes of the token
	let mut nums = vec![];
	v.all_numbers(&mut nums);
	let back = guarded(|| Value::from_serde_json(j.clone())).map_err(|p| (format!("from_serde_json panicked: {p}"), None))?;
	let got = RefValue::from_value(&back);
	if nf(&got) == nf(v) {
		let floats = nums.iter().any(|n| n.contains(['.', 'e', 'E']));
		return Ok((floats && v.any(&|x| matches!(x, RefValue::Obj(o) if o.len() >= 2)), if floats { vec!["non_integer_token"] } else { vec![] }));
	}
	// attribute to the known finding only if every differing number is a serde_json mis-rounding by one ulp
	let mut got_nums = vec![];
	got.all_numbers(&mut got_nums);
	let strip = |x: &RefValue| {
		fn blank(v: &RefValue) -> RefValue {
			match v {
				RefValue::Num(_) => RefValue::Num("0".into()),
				RefValue::Arr(a) => RefValue::Arr(a.iter().map(blank).collect()),
				RefValue::Obj(o) => RefValue::Obj(o.iter().map(|(k, x)| (k.clone(), blank(x))).collect()),
				o => o.clone(),
			}
		}
		nf(&blank(x))
	};
	if strip(&got) == strip(v) {
		// same structure: numbers differ. Check every token against serde_json's own parser.
		let mut all_explained = true;
		let mut example = String::new();
		for n in &nums {
			let theirs = n.parse::<serde_json::Number>().ok().and_then(|x| x.as_f64());
			let exact: f64 = n.parse().unwrap();
			match sj_misrounds(n) {
				Some((t, e)) if ((t.to_bits() as i64) - (e.to_bits() as i64)).unsigned_abs() <= 8 => example = format!("{n} -> {t:e} (correctly rounded: {e:e})"),
				Some(_) => all_explained = false,
				None => {
					// serde_json is exact on this token: the bridge must be exact too
					if let Some(t) = theirs {
						if t != exact {
							all_explained = false;
						}
					}
				}
			}
		}
		// with the mis-rounded tokens replaced by what serde_json's parser yields, everything must match
		fn subst(v: &RefValue) -> RefValue {
			match v {
				RefValue::Num(n) => match sj_misrounds(n) {
					Some((t, _)) => RefValue::Num(format!("{t:e}")),
					None => v.clone(),
				},
				RefValue::Arr(a) => RefValue::Arr(a.iter().map(subst).collect()),
				RefValue::Obj(o) => RefValue::Obj(o.iter().map(|(k, x)| (k.clone(), subst(x))).collect()),
				o => o.clone(),
			}
		}
		if all_explained && nf(&subst(v)) == nf(&got) {
			return Err((format!("a non-integer number came back a few ulps off through serde_json's default float parser: {example}"), Some(SIG_B)));
		}
	}
	Err((format!("into_serde_json then from_serde_json changed the value beyond entry order and number spelling:\n was {v:?}\n now {got:?}"), None))
}

/// No panic on unrestricted values (duplicate keys, any number spelling).
pub fn no_panic(v: &RefValue) -> Result<(bool, Vec<&'static str>), (String, Option<&'static str>)> {
	let value = v.to_value();
	let mut nums = vec![];
	v.all_numbers(&mut nums);
	let overflow = nums.iter().any(|n| !n.parse::<f64>().map(|f| f.is_finite()).unwrap_or(false));
	match guarded(|| value.into_serde_json()) {
		Ok(j) => {
			guarded(|| Value::from_serde_json(j)).map_err(|p| (format!("from_serde_json panicked: {p}"), None))?;
			Ok((v.has_duplicate_keys() || overflow, vec![]))
		}
		Err(p) => {
			if overflow {
				Err((format!("into_serde_json panicked on a value containing a number beyond the double range: {p}"), Some(SIG_A)))
			} else {
				Err((format!("into_serde_json panicked: {p}"), None))
			}
		}
	}
}

fn outcome(r: Result<(bool, Vec<&'static str>), (String, Option<&'static str>)>) -> Outcome {
	match r {
		Ok((nt, classes)) => Outcome::ok(nt, classes),
		Err((m, Some(sig))) => Outcome::fail_sig(m, sig),
		Err((m, None)) => Outcome::fail(m),
	}
}

/// Numbers of the stated domain: 64-bit integers or finite doubles (spelled in any way).
fn arb_domain_number() -> BoxedStrategy<String> {
	prop_oneof![
		3 => super::c09::arb_respelled_double(),
		3 => any::<i64>().prop_map(|i| i.to_string()),
		2 => any::<u64>().prop_map(|u| u.to_string()),
		3 => any::<u64>().prop_filter_map("finite", |b| { let f = f64::from_bits(b); if f.is_finite() { Some(format!("{f:e}")) } else { None } }),
		2 => (any::<i32>(), 0i32..6).prop_map(|(i, d)| format!("{}", i as f64 / 10f64.powi(d))),
		2 => (any::<bool>(), 0u64..1_000_000, proptest::collection::vec(0u8..10, 1..8), proptest::option::of(-30i32..30)).prop_map(|(neg, int, frac, exp)| {
			let f: String = frac.into_iter().map(|d| (b'0' + d) as char).collect();
			format!("{}{int}.{f}{}", if neg { "-" } else { "" }, exp.map(|e| format!("e{e}")).unwrap_or_default())
		}),
		1 => prop::sample::select(vec!["0", "-0", "0.0", "-0.0", "1e5", "1E+2", "1.0", "2.50", "18446744073709551615", "-9223372036854775808", "1.7976931348623157e308", "5e-324", "0.1", "100e-2"]).prop_map(|s| s.to_string()),
	]
	.boxed()
}

fn arb_domain_value(numbers: BoxedStrategy<String>, dups: bool) -> BoxedStrategy<RefValue> {
	let leaf = prop_oneof![
		1 => Just(RefValue::Null),
		1 => any::<bool>().prop_map(RefValue::Bool),
		4 => numbers.prop_map(RefValue::Num),
		3 => gen::arb_string().prop_map(RefValue::Str),
	];
	let wide = proptest::collection::vec((prop_oneof![3 => gen::arb_long_key(), 1 => gen::arb_key(dups)], leaf.clone()), 9..90).prop_map(RefValue::Obj);
	let tree = leaf.prop_recursive(4, 48, 6, move |inner| {
		prop_oneof![
			1 => proptest::collection::vec(inner.clone(), 0..=5).prop_map(RefValue::Arr),
			2 => proptest::collection::vec((gen::arb_key(dups), inner), 0..=6).prop_map(RefValue::Obj),
		]
	});
	let large = gen::arb_large_value(dups).prop_map(|v| {
		gen::map_numbers(v, &|n| {
			let fits = n.parse::<i64>().is_ok() || n.parse::<u64>().is_ok() || (n.contains(['.', 'e', 'E']) && n.parse::<f64>().map(|f| f.is_finite()).unwrap_or(false));
			if fits { n } else { "2.5".to_string() }
		})
	});
	let s = prop_oneof![8 => tree, 1 => wide.clone(), 1 => proptest::collection::vec(wide, 1..4).prop_map(RefValue::Arr), 1 => large];
	if dups {
		s.boxed()
	} else {
		s.prop_map(gen::dedup_keys).boxed()
	}
}

/// H_after_histories: a duplicate-free object reached through a history of C06 operations (duplicates pushed, then removed).
pub fn after_history_case(ops: &[super::c06::Op], sel: u16) -> Outcome {
	let universe = ["a", "\u{e000}", "\u{10000}", "c"];
	let (mut obj, mut model) = match super::c06::run_history(ops, &universe, false) {
		Ok(x) => x,
		// an operation that misbehaves is C06's business; this family only needs *some* object with a history
		Err(m) => return Outcome::fail(format!("SKIP: the operation history did not produce the modelled object (C06's business) [{m}]")),
	};
	// make the final object duplicate-free by position removals: of each duplicated key keep the first (bit clear) or the last (bit set) occurrence
	let mut removed = 0;
	let mut bit = 0;
	loop {
		let dup = (0..model.len()).find_map(|i| (i + 1..model.len()).rev().find(|&j| model[j].0 == model[i].0).map(|j| (i, j)));
		let Some((i, j)) = dup else { break };
		let at = if (sel >> (bit % 16)) & 1 == 0 { j } else { i };
		bit += 1;
		obj.remove_at(at);
		model.remove(at);
		removed += 1;
	}
	let got: Vec<(String, RefValue)> = obj.iter().map(|e| (e.key.as_str().to_string(), RefValue::from_value(&e.value))).collect();
	if got != model {
		return Outcome::fail("SKIP: remove_at did not produce the modelled object (C06's business)".into());
	}
	let had_removal = removed > 0 || ops.iter().any(|o| matches!(o, super::c06::Op::Remove(..) | super::c06::Op::RemoveAt(_) | super::c06::Op::RemoveUnique(_) | super::c06::Op::Insert(..) | super::c06::Op::InsertFront(..)));
	let n = model.len();
	let (v, value) = if sel & 0x8000 != 0 { (RefValue::Arr(vec![RefValue::Obj(model)]), Value::Array(vec![Value::Object(obj)])) } else { (RefValue::Obj(model), Value::Object(obj)) };
	match into_from_value(&v, value) {
		Ok(_) => Outcome::ok(had_removal && n >= 1, vec![if removed > 0 { "duplicates_removed_at_the_end" } else { "duplicate_free_already" }]),
		Err((m, sig)) => Outcome { verdict: Err((m, sig.map(|x| x.to_string()))), nontrivial: false, classes: vec![] },
	}
}

pub fn run(ctx: &mut Ctx) {
	if ctx.wants("J_serde_json_values") {
		let n = ctx.pick(250_000, 1_500_000);
		let fam = Fam::new("J_serde_json_values", "proptest: serde_json values (PosInt/NegInt/Float numbers incl. u64::MAX, i64::MIN, -0.0, subnormals, 1e+-300, random bit patterns; arbitrary strings and keys; nesting): into_serde_json(from_serde_json(j)) == j; from_serde_json stores exactly serde_json's Display text; the From impls agree; a float difference is attributed to the open finding only when serde_json's own FromStr mis-rounds that very token by one ulp and the result equals that value; non-trivial = a non-integer float and an object with >= 2 keys", false);
		let fam = run_proptest(ctx, fam, n, arb_sj_value, |j| outcome(from_into(j)), |j| json!({"serde_json": j}));
		ctx.add(fam);
	}
	if ctx.wants("S_json_syntax_values_in_domain") {
		let n = ctx.pick(250_000, 1_500_000);
		let fam = Fam::new("S_json_syntax_values_in_domain", "proptest: json-syntax values of the stated domain (duplicate-free; numbers = 64-bit integers or finite doubles in arbitrary spellings): from_serde_json(into_serde_json(v)) equals v up to entry order and number spelling (same integer or same double); same attribution rule for the open finding; non-trivial = a non-integer number and an object with >= 2 keys", false);
		let fam = run_proptest(ctx, fam, n, || arb_domain_value(arb_domain_number(), false), |v| outcome(into_from(v)), |v| json!({"value": v.encode()}));
		ctx.add(fam);
	}
	if ctx.wants("H_after_histories") {
		let n = ctx.pick(20_000, 300_000);
		let keys: Vec<String> = vec!["a".into(), "\u{e000}".into(), "\u{10000}".into()];
		let fam = Fam::new("H_after_histories", "proptest: a duplicate-free object reached through a random history of C06 operations over 3 keys (duplicates pushed and later removed by key / position / iterator / insert collapse, sorts, canonicalizations, bulk rebuilds, clones; remaining duplicates removed by position at the end), bare or inside an array: from_serde_json(into_serde_json(v)) equals v up to entry order and number spelling; non-trivial = the history contains a removal and the final object is not empty", false);
		let ks = keys.clone();
		let fam = run_proptest(
			ctx,
			fam,
			n,
			move || (proptest::collection::vec(super::c06::arb_op(ks.clone(), true), 2..40), any::<u16>()),
			|(ops, sel)| after_history_case(ops, *sel),
			|(ops, sel)| { let mut j = super::c06::ops_json(ops); j["sel"] = json!(sel); j },
		);
		ctx.add(fam);
	}
	if ctx.wants("U_unrestricted_no_panic") {
		let n = ctx.pick(250_000, 1_500_000);
		let fam = Fam::new("U_unrestricted_no_panic", "proptest: unrestricted json-syntax values (duplicate keys, every number spelling up to 400 digits, beyond the double range): neither direction may panic; non-trivial = duplicate keys or a number beyond the double range", false);
		let fam = run_proptest(ctx, fam, n, || arb_domain_value(prop_oneof![3 => gen::arb_number(true), 1 => super::c09::arb_respelled_double()].boxed(), true), |v| outcome(no_panic(v)), |v| json!({"value": v.encode()}));
		ctx.add(fam);
	}
	if ctx.wants("K_known_finding_probes") {
		ctx.begin_family("K_known_finding_probes");
		let mut fam = Fam::new("K_known_finding_probes", "fixed probes for the open findings (1e400, -1e400 -> panic; -5.974399999999999e229 -> one ulp off) and neighbours that must hold", true);
		for s in ["1e400", "-1e400", "1e308", "123456789012345678901234567890"] {
			fam.tick();
			let v = RefValue::num(s);
			match no_panic(&v) {
				Ok(_) => fam.nontrivial(),
				Err((m, sig)) => fam.fail(json!({"value": v.encode()}), m, sig.map(|x| x.to_string())),
			}
		}
		for f in [-5.974399999999999e229f64, 0.1, 1e300] {
			fam.tick();
			let j = J::Array(vec![J::Number(serde_json::Number::from_f64(f).unwrap())]);
			match from_into(&j) {
				Ok(_) => fam.nontrivial(),
				Err((m, sig)) => fam.fail(json!({"serde_json": j}), m, sig.map(|x| x.to_string())),
			}
		}
		fam.sample(|| json!({"value": RefValue::num("1e400").encode()}));
		ctx.add(fam);
	}
	ctx.assume("serde_json is built with the features /repo requests (no float_roundtrip): its FromStr for non-integer tokens is best-effort; the bridge is charged only with differences it adds itself");
}

pub fn replay(family: &str, case: &J) -> Result<(), String> {
	if family == "H_after_histories" {
		let ops: Vec<super::c06::Op> = case["ops"].as_array().ok_or("bad case")?.iter().map(super::c06::dec_op).collect();
		return match after_history_case(&ops, case["sel"].as_u64().unwrap_or(0) as u16).verdict {
			Ok(()) => Ok(()),
			Err((m, _)) => Err(m),
		};
	}
	let r = if let Some(j) = case.get("serde_json") {
		from_into(j)
	} else {
		let v = RefValue::decode(&case["value"]);
		if family == "S_json_syntax_values_in_domain" {
			into_from(&v)
		} else {
			no_panic(&v)
		}
	};
	match r {
		Ok(_) => Ok(()),
		Err((m, sig)) => Err(format!("{m}{}", sig.map(|s| format!(" [known-finding signature {s}]")).unwrap_or_default())),
	}
}
