//! C02 — faithful decoding: the parsed value is the document's abstract content.
use crate::entry::{parse_bytes_via, parse_via, strict, Ep, ALL_EPS};
use crate::framework::{dec_bytes, run_proptest, Ctx, Fam, Outcome};
use crate::gen;
use crate::objquery::check_all_objects;
use crate::parsefam::{self as pf, Acc};
use crate::refjson::ref_parse;
use crate::refvalue::RefValue;
use rayon::prelude::*;
use serde_json::{json, Value as J};

pub const CLASSES: &[&str] = &["not_a_valid_document", "plain", "with_escape", "with_non_ascii", "with_duplicate_key", "with_fraction_or_exponent"];

const TWO_EPS: [Ep; 2] = [Ep::Str, Ep::Slice];

/// Returns (class bitmask as class index list, nontrivial).
pub fn property(text: &str, eps: &[Ep], expected_tree: Option<&RefValue>) -> Result<(Vec<usize>, bool), String> {
	let chars: Vec<char> = text.chars().collect();
	let r = ref_parse(&chars, true);
	if !r.accepted_strict() {
		if expected_tree.is_some() {
			return Err("harness: the reference automaton rejects a generated rendering".into());
		}
		return Ok((vec![0], false));
	}
	let doc = r.doc.unwrap();
	if let Some(t) = expected_tree {
		if &doc.value != t {
			return Err(format!("harness: reference decoding {:?} differs from the generated tree {:?}", doc.value, t));
		}
	}
	for &ep in eps {
		let out = if ep == Ep::Slice { parse_bytes_via(ep, text.as_bytes(), strict()) } else { parse_via(ep, text, strict()) };
		let (v, _) = match out.result {
			Ok(x) => x,
			// "when parsing succeeds ...": a rejected valid document is C01's business, not this property's
			Err(e) => return Err(format!("SKIP: the parser rejected a document the reference accepts (acceptance is C01's business) [{}: {e:?}]", ep.name())),
		};
		let got = RefValue::from_value(&v);
		if got != doc.value {
			return Err(format!("{} decoded {:?}, the document's content is {:?}", ep.name(), got, doc.value));
		}
		check_all_objects(&v, &doc.value, &["", "absent\u{1}key"]).map_err(|m| format!("{}: {m}", ep.name()))?;
	}
	let mut classes = vec![];
	if text.contains('\\') {
		classes.push(2);
	}
	if !text.is_ascii() {
		classes.push(3);
	}
	if doc.value.has_duplicate_keys() {
		classes.push(4);
	}
	let mut nums = vec![];
	doc.value.all_numbers(&mut nums);
	if nums.iter().any(|n| n.contains(['.', 'e', 'E'])) {
		classes.push(5);
	}
	let nt = !classes.is_empty();
	if classes.is_empty() {
		classes.push(1);
	}
	Ok((classes, nt))
}

fn checker<'a>(eps: &'a [Ep]) -> impl Fn(&mut Acc, &[u8]) + Sync + 'a {
	move |acc, input| {
		let text = match std::str::from_utf8(input) {
			Ok(t) => t,
			Err(_) => return,
		};
		match property(text, eps, None) {
			Ok((classes, nt)) => {
				for c in classes {
					acc.class(c);
				}
				if nt {
					acc.nontrivial(input);
				}
			}
			Err(m) => acc.fail(input, m),
		}
	}
}

/// Parses `text` (a single JSON string, optionally as the key of an object)
/// and checks that it decodes to exactly `expected`.
fn check_string_decoding(text: &str, expected: &str, as_key: bool) -> Result<(), String> {
	for ep in TWO_EPS {
		let out = if ep == Ep::Slice { parse_bytes_via(ep, text.as_bytes(), strict()) } else { parse_via(ep, text, strict()) };
		let (v, _) = out.result.map_err(|e| format!("SKIP: the parser rejected a document the reference accepts (acceptance is C01's business) [{} on {text:?}: {e:?}]", ep.name()))?;
		let got: Option<&str> = if as_key {
			v.as_object().and_then(|o| o.entries().first()).map(|e| e.key.as_str())
		} else {
			v.as_string()
		};
		if got != Some(expected) {
			return Err(format!("{}: {text:?} decoded to {:?}, expected {:?}", ep.name(), got.map(|s| s.escape_unicode().to_string()), expected.escape_unicode().to_string()));
		}
		if as_key {
			let o = v.as_object().unwrap();
			if o.get(expected).count() != 1 || o.index_of(expected) != Some(0) {
				return Err(format!("{}: key {:?} is not found by lookup", ep.name(), expected.escape_unicode().to_string()));
			}
		}
	}
	Ok(())
}

fn hex4(u: u32, style: u32) -> String {
	let s = format!("{u:04x}");
	match style {
		0 => s,
		1 => s.to_uppercase(),
		_ => s.chars().enumerate().map(|(i, c)| if i % 2 == 0 { c.to_ascii_uppercase() } else { c }).collect(),
	}
}

pub fn run(ctx: &mut Ctx) {
	// (a1) all 65,536 \uXXXX escapes, three hex-case patterns, value and key position
	if ctx.wants("E1_all_bmp_escapes") {
		ctx.begin_family("E1_all_bmp_escapes");
		let fam = (0u32..0x10000)
			.into_par_iter()
			.fold(
				|| Fam::new("E1_all_bmp_escapes", "", true),
				|mut fam, u| {
					if (0xD800..0xE000).contains(&u) {
						fam.exclude("surrogate_code_unit_alone(strict-invalid; C12)");
						return fam;
					}
					let expected = char::from_u32(u).unwrap().to_string();
					for style in 0..3 {
						for as_key in [false, true] {
							fam.tick();
							let lit = format!("\"\\u{}\"", hex4(u, style));
							let text = if as_key { format!("{{{lit}:0}}") } else { lit };
							match crate::framework::guarded(|| check_string_decoding(&text, &expected, as_key)) {
								Ok(Ok(())) => fam.nontrivial(),
								Ok(Err(m)) | Err(m) => fam.fail(crate::framework::enc_text(&text), m, None),
							}
						}
					}
					fam
				},
			)
			.reduce(|| Fam::new("E1_all_bmp_escapes", "", true), |mut a, b| { a.merge(b); a });
		let mut fam = fam;
		fam.rule = "every \\uXXXX escape of a non-surrogate code unit x 3 hex-case patterns x (string value | object key), parse_str + parse_slice; every case is non-trivial (contains an escape)".into();
		fam.sample(|| json!({"text": "\"\\u00e9\"", "expected": "\u{e9}"}));
		ctx.add(fam);
	}
	// (a2) all high x low surrogate pairs
	if ctx.wants("E2_all_surrogate_pairs") {
		ctx.begin_family("E2_all_surrogate_pairs");
		let fam = (0xD800u32..0xDC00)
			.into_par_iter()
			.fold(
				|| Fam::new("E2_all_surrogate_pairs", "", true),
				|mut fam, h| {
					for l in 0xDC00u32..0xE000 {
						fam.tick();
						let style = (h + l) % 3;
						let text = format!("\"\\u{}\\u{}\"", hex4(h, style), hex4(l, (style + 1) % 3));
						let cp = 0x10000 + ((h - 0xD800) << 10) + (l - 0xDC00);
						let expected = char::from_u32(cp).unwrap().to_string();
						match crate::framework::guarded(|| check_string_decoding(&text, &expected, false)) {
							Ok(Ok(())) => fam.nontrivial(),
							Ok(Err(m)) | Err(m) => fam.fail(crate::framework::enc_text(&text), m, None),
						}
					}
					fam
				},
			)
			.reduce(|| Fam::new("E2_all_surrogate_pairs", "", true), |mut a, b| { a.merge(b); a });
		let mut fam = fam;
		fam.rule = "all 1,048,576 (high, low) surrogate escape pairs must combine into the one scalar 0x10000 + ((h-0xD800)<<10) + (l-0xDC00)".into();
		fam.sample(|| json!({"text": "\"\\uD83D\\uDE00\"", "expected_scalar": 0x1F600}));
		ctx.add(fam);
	}
	// (a3) all scalar values raw
	if ctx.wants("E3_all_scalars_raw") {
		ctx.begin_family("E3_all_scalars_raw");
		let fam = (0u32..0x110000)
			.into_par_iter()
			.fold(
				|| Fam::new("E3_all_scalars_raw", "", true),
				|mut fam, u| {
					let c = match char::from_u32(u) {
						Some(c) => c,
						None => return fam,
					};
					if u < 0x20 || c == '"' || c == '\\' {
						fam.exclude("needs_escape(covered by E1/E4)");
						return fam;
					}
					for as_key in [false, true] {
						fam.tick();
						let text = if as_key { format!("{{\"{c}\":0}}") } else { format!("\"{c}\"") };
						match crate::framework::guarded(|| check_string_decoding(&text, &c.to_string(), as_key)) {
							Ok(Ok(())) => {
								if u >= 0x80 {
									fam.nontrivial()
								}
							}
							Ok(Err(m)) | Err(m) => fam.fail(crate::framework::enc_text(&text), m, None),
						}
					}
					fam
				},
			)
			.reduce(|| Fam::new("E3_all_scalars_raw", "", true), |mut a, b| { a.merge(b); a });
		let mut fam = fam;
		fam.rule = "every Unicode scalar value that may appear raw in a string, as a one-character string value and as a key (then looked up); non-trivial = non-ASCII".into();
		fam.sample(|| json!({"text": "\"\u{10ffff}\""}));
		ctx.add(fam);
	}
	// (a4) backslash + every ASCII character
	if ctx.wants("E4_backslash_ascii") {
		ctx.begin_family("E4_backslash_ascii");
		let mut fam = Fam::new("E4_backslash_ascii", "backslash followed by each of the 128 ASCII characters inside a string: the 8 two-character escapes decode per RFC 8259 section 7, everything else (except u) is rejected", true);
		for b in 0u8..128 {
			fam.tick();
			let c = b as char;
			let text = format!("\"a\\{c}b\"");
			let expected: Option<char> = match c {
				'"' => Some('"'),
				'\\' => Some('\\'),
				'/' => Some('/'),
				'b' => Some('\u{8}'),
				'f' => Some('\u{c}'),
				'n' => Some('\n'),
				'r' => Some('\r'),
				't' => Some('\t'),
				_ => None,
			};
			match expected {
				Some(d) => match check_string_decoding(&text, &format!("a{d}b"), false) {
					Ok(()) => fam.nontrivial(),
					Err(m) => fam.fail(crate::framework::enc_text(&text), m, None),
				},
				None => {
					if parse_via(Ep::Str, &text, strict()).result.is_ok() {
						fam.fail(crate::framework::enc_text(&text), format!("escape \\{c:?} accepted"), None);
					} else {
						fam.class("rejected_escape");
					}
				}
			}
		}
		fam.sample(|| json!({"text": "\"a\\nb\""}));
		ctx.add(fam);
	}
	// (b) valid documents among all token sequences
	if ctx.wants("F2_valid_token_documents") {
		let ntok = ctx.pick(6, 7);
		ctx.begin_family("F2_valid_token_documents");
		let mut tokens = pf::f2_tokens();
		tokens.push("\"k\\u0041\\ud83d\\ude00\"".to_string());
		tokens.push("1E-2".to_string());
		let c = checker(&TWO_EPS);
		let acc = pf::enum_token_seqs(&tokens, ntok, &c);
		ctx.add(acc.into_fam("F2_valid_token_documents", &format!("every sequence of <= {ntok} tokens over 18 tokens; the valid ones must decode to the reference tree, with all key lookups equal to a linear scan; non-trivial = contains an escape, a non-ASCII character, a duplicate key or a fraction/exponent"), true, CLASSES, &json!({})));
	}
	// (c) rendered random trees
	if ctx.wants("G_rendered_trees") {
		let n = ctx.pick(200_000, 3_000_000);
		let fam = Fam::new("G_rendered_trees", "proptest: random tree (duplicate keys, 1-400 digit numbers, all string classes) rendered with random whitespace and escape spellings; all 13 entry points; value == generated tree == reference decoding; all key lookups == linear scan", false);
		let fam = run_proptest(
			ctx,
			fam,
			n,
			|| (gen::arb_doc_value(gen::ValueCfg::MEDIUM), gen::arb_choices()),
			|(v, ch)| {
				let text = gen::render_doc(v, ch, gen::RenderCfg::FREE);
				match property(&text, &ALL_EPS, Some(v)) {
					Ok((classes, nt)) => Outcome::ok(nt, classes.into_iter().map(|c| CLASSES[c]).collect()),
					Err(m) => Outcome::fail(m),
				}
			},
			|(v, ch)| pf::case_json(gen::render_doc(v, ch, gen::RenderCfg::FREE).as_bytes(), &json!({})),
		);
		ctx.add(fam);
	}
	ctx.assume("RefValue::from_value reads the parsed value through public accessors only (as_*, iter, entries)");
}

pub fn replay(family: &str, case: &J) -> Result<(), String> {
	if case.get("text").is_some() {
		// E-families: re-derive the expectation from the reference automaton
		let text = crate::framework::dec_text(case);
		let _ = family;
		return property(&text, &ALL_EPS, None).map(|_| ());
	}
	let input = dec_bytes(case);
	let text = String::from_utf8(input).map_err(|e| e.to_string())?;
	property(&text, &ALL_EPS, None).map(|_| ())
}
