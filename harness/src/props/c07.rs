//! C07 — parse errors point at the first offending character.
use crate::entry::{parse_bytes_via, parse_via, parse_with_stream_error, strict, Ep, PErr, POut, ALL_EPS, STREAM_EPS};
use crate::framework::{dec_bytes, run_proptest, Ctx, Fam, Outcome};
use crate::gen;
use crate::parsefam::{self as pf, Acc};
use crate::refjson::{ref_parse, utf8_offsets, RefParse, SurKind};
use proptest::prelude::*;
use serde_json::{json, Value as J};

pub const CLASSES: &[&str] = &[
	"not_rejected",
	"unexpected_offset_lt2",
	"unexpected_offset_ge2",
	"missing_low_surrogate",
	"invalid_low_surrogate",
	"invalid_code_point",
	"invalid_utf8",
	"stream",
	"unexpected_eof",
];

const TWO_EPS: [Ep; 2] = [Ep::Str, Ep::Slice];

/// Checks one reported error against the reference. `offsets` maps character
/// indices of the (valid part of the) input to byte offsets; `total_len` is
/// the byte length of the whole input.
fn check_error(out: &POut, err: &PErr, r: &RefParse, chars: &[char], offsets: &[usize], total_len: usize, who: &str) -> Result<(usize, bool), String> {
	let nchars = chars.len();
	let boundary = |p: usize| p <= total_len && (p > offsets[nchars] || offsets.binary_search(&p).is_ok());
	// accessor consistency
	if let Some((pos, (s, e))) = out.pos_span {
		let (vp, vs, ve) = match err {
			PErr::Stream(p) | PErr::Unexpected(p, _) | PErr::InvalidUtf8(p) => (*p, *p, *p),
			PErr::InvalidCodePoint(s, e, _) | PErr::MissingLow(s, e, _) | PErr::InvalidLow(s, e, _, _) => (*s, *s, *e),
		};
		if pos != vp || s != vs || e != ve {
			return Err(format!("{who}: position()/span() = {pos}/{s}..{e} disagree with the error payload {err:?}"));
		}
	}
	match err {
		PErr::Unexpected(p, c) => {
			let (ei, ec) = match r.syntax_err {
				Some((i, c)) => (i, c),
				None => (nchars, None),
			};
			if !boundary(*p) {
				return Err(format!("{who}: Unexpected({p}, {c:?}): offset is not a character boundary within the input"));
			}
			if offsets[ei] != *p || ec != *c {
				return Err(format!(
					"{who}: reported Unexpected({p}, {c:?}) but the longest viable prefix has {} bytes and the next character is {:?}",
					offsets[ei], ec
				));
			}
			if ec.is_none() {
				Ok((8, *p >= 2))
			} else if *p >= 2 {
				Ok((2, true))
			} else {
				Ok((1, false))
			}
		}
		PErr::InvalidCodePoint(s, e, _) | PErr::MissingLow(s, e, _) | PErr::InvalidLow(s, e, _, _) => {
			let ev = match r.events.first() {
				Some(ev) => ev,
				None => return Err(format!("{who}: reported {err:?} but no surrogate problem precedes the syntax error (reference syntax_err={:?})", r.syntax_err)),
			};
			if !boundary(*s) || !boundary(*e) {
				return Err(format!("{who}: {err:?}: span is not on character boundaries within the input"));
			}
			let u_start = offsets[ev.esc_start];
			let u_esc_end = offsets[ev.esc_end];
			let u_end = offsets[ev.follow_end];
			if !(s < e) {
				return Err(format!("{who}: {err:?}: empty span"));
			}
			if *s < u_start || *e > u_end {
				return Err(format!("{who}: {err:?}: span {s}..{e} is not inside the offending escape sequence(s) {u_start}..{u_end}"));
			}
			let overlaps_first = *s < u_esc_end;
			let overlaps_second = ev.next_unit.is_some() && *e > u_esc_end;
			if !(overlaps_first || overlaps_second) {
				return Err(format!("{who}: {err:?}: span {s}..{e} does not touch an escape of {u_start}..{u_end}"));
			}
			match err {
				PErr::MissingLow(_, _, h) => {
					if ev.kind != SurKind::UnpairedHigh || *h != ev.unit {
						return Err(format!("{who}: {err:?} but the first surrogate problem is {ev:?}"));
					}
					Ok((3, true))
				}
				PErr::InvalidLow(_, _, h, n) => {
					if ev.kind != SurKind::UnpairedHigh || *h != ev.unit || ev.next_unit != Some(*n) {
						return Err(format!("{who}: {err:?} but the first surrogate problem is {ev:?}"));
					}
					Ok((4, true))
				}
				PErr::InvalidCodePoint(_, _, u) => {
					if ev.kind != SurKind::LoneLow || *u != ev.unit as u32 {
						return Err(format!("{who}: {err:?} but the first surrogate problem is {ev:?}"));
					}
					Ok((5, true))
				}
				_ => unreachable!(),
			}
		}
		PErr::InvalidUtf8(_) | PErr::Stream(_) => Err(format!("{who}: unexpected error variant {err:?} here")),
	}
}

pub fn property(input: &[u8], eps: &[Ep]) -> Result<(usize, bool), String> {
	match std::str::from_utf8(input) {
		Ok(text) => {
			let chars: Vec<char> = text.chars().collect();
			let r = ref_parse(&chars, false);
			if r.accepted_strict() {
				return Ok((0, false));
			}
			let offsets = utf8_offsets(&chars);
			let mut res = (0, false);
			for &ep in eps {
				let out = parse_via(ep, text, strict());
				if let Err(e) = &out.result {
					res = check_error(&out, e, &r, &chars, &offsets, input.len(), ep.name())?;
				}
			}
			Ok(res)
		}
		Err(u) => {
			let v = u.valid_up_to();
			let valid = std::str::from_utf8(&input[..v]).unwrap();
			let chars: Vec<char> = valid.chars().collect();
			let r = ref_parse(&chars, false);
			let offsets = utf8_offsets(&chars);
			let mut res = (0, false);
			for ep in [Ep::Slice, Ep::SliceWith] {
				let out = parse_bytes_via(ep, input, strict());
				if let Err(e) = &out.result {
					res = match e {
						PErr::InvalidUtf8(p) => {
							let earlier = matches!(r.syntax_err, Some((i, _)) if i < chars.len());
							if earlier {
								return Err(format!(
									"{}: InvalidUtf8({p}) although a syntax error occurs strictly before the ill-formed sequence (byte {})",
									ep.name(),
									offsets[r.syntax_err.unwrap().0]
								));
							}
							if *p != v {
								return Err(format!("{}: InvalidUtf8({p}) but the first ill-formed sequence starts at byte {v}", ep.name()));
							}
							if let Some((pos, (s, e))) = out.pos_span {
								if pos != *p || s != *p || e != *p {
									return Err(format!("{}: position()/span() disagree with InvalidUtf8({p})", ep.name()));
								}
							}
							(6, v >= 1)
						}
						PErr::Unexpected(p, _) => {
							// must be a genuine syntax error strictly before the ill-formed sequence
							match r.syntax_err {
								Some((i, _)) if i < chars.len() => check_error(&out, e, &r, &chars, &offsets, input.len(), ep.name())?,
								_ => {
									return Err(format!(
										"{}: reported Unexpected at {p} but the text before the first ill-formed sequence (byte {v}) is a viable prefix: InvalidUtf8({v}) expected",
										ep.name()
									))
								}
							}
						}
						other => check_error(&out, other, &r, &chars, &offsets, input.len(), ep.name())?,
					};
				}
			}
			Ok(res)
		}
	}
}

/// Stream-error clause: `chars[..k]` then an error.
pub fn stream_property(chars: &[char], k: usize) -> Result<(usize, bool), String> {
	let prefix = &chars[..k];
	let r = ref_parse(prefix, false);
	let offsets = utf8_offsets(prefix);
	let marker = 0xC0FFEE00u32 ^ k as u32;
	let mut res = (0, false);
	for ep in STREAM_EPS {
		let (out, payload) = parse_with_stream_error(ep, chars, k, marker, strict());
		match &out.result {
			// the property speaks about the error that is reported; accepting such a stream is C01's / C03's business
			Ok(_) => return Err(format!("SKIP: the parser accepted a stream that ends with an error (no error to examine) [{}]", ep.name())),
			Err(PErr::Stream(p)) => {
				if matches!(r.syntax_err, Some((i, _)) if i < k) {
					return Err(format!("{}: Stream({p}) although a syntax error occurs strictly before character {k}", ep.name()));
				}
				if *p != offsets[k] {
					return Err(format!("{}: Stream({p}) but the failing character starts at byte {}", ep.name(), offsets[k]));
				}
				if payload != Some(marker) {
					return Err(format!("{}: stream error payload was not passed through", ep.name()));
				}
				res = (7, k >= 1);
			}
			Err(e @ PErr::Unexpected(..)) => match r.syntax_err {
				Some((i, _)) if i < k => {
					res = check_error(&out, e, &r, prefix, &offsets, offsets[k], ep.name())?;
				}
				_ => return Err(format!("{}: {e:?} but the characters before the stream error are a viable prefix", ep.name())),
			},
			Err(e) => {
				res = check_error(&out, e, &r, prefix, &offsets, offsets[k], ep.name())?;
			}
		}
	}
	Ok(res)
}

fn checker<'a>(eps: &'a [Ep]) -> impl Fn(&mut Acc, &[u8]) + Sync + 'a {
	move |acc, input| match property(input, eps) {
		Ok((class, nt)) => {
			acc.class(class);
			if nt {
				acc.nontrivial(input);
			}
		}
		Err(m) => acc.fail(input, m),
	}
}

pub fn run(ctx: &mut Ctx) {
	let all = checker(&ALL_EPS);
	let two = checker(&TWO_EPS);
	let extra = json!({});
	let rule_nt = "non-trivial = rejected with an error offset >= 2 (classes = error variant)";

	let (l_all, l_two) = ctx.pick((5, 7), (6, 8));
	if ctx.wants("F1_chars_all_entry_points") {
		ctx.begin_family("F1_chars_all_entry_points");
		let acc = pf::enum_strings(pf::F1_ALPHABET, 0, l_all, false, &all);
		ctx.add(acc.into_fam("F1_chars_all_entry_points", &format!("every string of length <= {l_all} over the 18-character alphabet, error of every entry point vs the reference viable-prefix recogniser; {rule_nt}"), true, CLASSES, &extra));
	}
	if ctx.wants("F1_chars_str_slice") {
		ctx.begin_family("F1_chars_str_slice");
		let acc = pf::enum_strings(pf::F1_ALPHABET, l_all + 1, l_two, false, &two);
		ctx.add(acc.into_fam("F1_chars_str_slice", &format!("every string of length {}..={l_two}, parse_str and parse_slice", l_all + 1), true, CLASSES, &extra));
	}
	if ctx.wants("F2_tokens") {
		let ntok = ctx.pick(5, 6);
		ctx.begin_family("F2_tokens");
		let mut tokens = pf::f2_tokens();
		tokens.extend(surrogate_tokens());
		let acc = pf::enum_token_seqs(&tokens, ntok, &two);
		ctx.add(acc.into_fam("F2_tokens", &format!("every sequence of <= {ntok} tokens from the 16 C01 tokens + 4 surrogate-escape strings"), true, CLASSES, &extra));
	}
	if ctx.wants("S_escape_sequences") {
		ctx.begin_family("S_escape_sequences");
		let l = ctx.pick(4, 5);
		let inputs = super::c12::element_sequences(l);
		let acc = pf::run_list(&inputs, false, &all);
		ctx.add(acc.into_fam("S_escape_sequences", &format!("every sequence of 1..={l} string elements from {:?} as string value, object key and array item, every entry point: the surrogate errors (missing / invalid low surrogate, invalid code point) carry the reference position; {rule_nt}", super::c12::ELEMENTS), true, CLASSES, &extra));
	}
	if ctx.wants("F3_transition_cover") {
		let numlen = ctx.pick(5, 7);
		ctx.begin_family("F3_transition_cover");
		let inputs: Vec<Vec<u8>> = pf::f3_inputs(numlen).into_iter().map(String::into_bytes).collect();
		let acc = pf::run_list(&inputs, true, &all);
		ctx.add(acc.into_fam("F3_transition_cover", "transition cover of the lexical sub-languages and structural states (as C01/F3), every entry point", true, CLASSES, &extra));
	}
	if ctx.wants("F4_corpus_byte_edits") {
		let corpus = pf::load_corpus(ctx, 40);
		let all256: Vec<u8> = (0u16..256).map(|b| b as u8).collect();
		let probes: &[u8] = if ctx.quick() { pf::PROBE_BYTES } else { &all256 };
		ctx.begin_family("F4_corpus_byte_edits");
		let acc = pf::corpus_edits(&corpus, probes, &two);
		ctx.add(acc.into_fam("F4_corpus_byte_edits", &format!("{} corpus documents: truncation, deletion, insertion/replacement by {} probe bytes at every offset", corpus.len(), probes.len()), false, CLASSES, &extra));
	}
	if ctx.wants("F6_utf8_exhaustive") {
		ctx.begin_family("F6_utf8_exhaustive");
		let tail: Vec<u8> = if ctx.quick() { pf::UTF8_TAIL_QUICK.to_vec() } else { (0u16..256).step_by(3).map(|b| b as u8).chain([0x7f, 0x80, 0x8f, 0x90, 0xbf, 0xc0]).collect() };
		let acc = pf::utf8_exhaustive(pf::F6_CONTEXTS, &tail, &two);
		ctx.add(acc.into_fam("F6_utf8_exhaustive", "every 2-/3-byte sequence in 8 contexts + 4-byte sequences: InvalidUtf8 offset = core::str::from_utf8's valid_up_to unless a syntax error is strictly earlier", true, CLASSES, &extra));
	}
	if ctx.wants("F7_stream_errors") {
		ctx.begin_family("F7_stream_errors");
		let corpus = pf::load_corpus(ctx, 40);
		use rayon::prelude::*;
		let acc = corpus
			.par_iter()
			.fold(
				|| Acc::new(true),
				|mut acc, doc| {
					if let Ok(text) = std::str::from_utf8(doc) {
						let chars: Vec<char> = text.chars().collect();
						for k in 0..=chars.len() {
							acc.evals += 1;
							let mut key = doc.clone();
							key.extend_from_slice(&(k as u32).to_le_bytes());
							match crate::framework::guarded(|| stream_property(&chars, k)) {
								Ok(Ok((class, nt))) => {
									acc.class(class);
									if nt {
										acc.nontrivial(&key);
									}
								}
								Ok(Err(m)) => acc.fail(doc, format!("stream error injected at character {k}: {m}")),
								Err(p) => acc.fail(doc, format!("stream error injected at character {k}: {p}")),
							}
						}
					}
					acc
				},
			)
			.reduce(|| Acc::new(true), Acc::merge);
		let mut fam = acc.into_fam("F7_stream_errors", "every corpus document (valid UTF-8) with a stream error injected at every character position k, through parse_utf8(_with) and parse(_with): Stream(byte offset of k, payload) unless a syntax/surrogate error is strictly earlier", false, CLASSES, &json!({"stream": true}));
		fam.samples.clear();
		fam.sample(|| json!({"text": "[1, 2]", "stream_error_at_char": 3}));
		ctx.add(fam);
	}
	if ctx.wants("U_two_faults") {
		let n = ctx.pick(60_000, 800_000);
		let fam = Fam::new("U_two_faults", "proptest: a rendered tree in which strings may hold literal U+FFFD and injected unpaired/lone surrogate escapes, optionally one character mutation, and then 1..=2 ill-formed byte sequences inserted at random byte positions: parse_slice(_with) must report the *first* fault in stream order with the right variant, offset and payload (InvalidUtf8 at valid_up_to unless a syntax or surrogate error is strictly earlier); non-trivial = the input is ill-formed UTF-8 and an earlier surrogate/syntax fault or a literal U+FFFD precedes the ill-formed sequence", false);
		let fam = run_proptest(
			ctx,
			fam,
			n,
			|| {
				(
					gen::arb_value(gen::ValueCfg::SMALL),
					gen::arb_choices(),
					proptest::collection::vec((any::<u16>(), prop_oneof![2 => super::c12::arb_elements(), 1 => Just("\u{fffd}".to_string()), 1 => Just("a\u{fffd}\u{fffd}b".to_string())]), 0..=2),
					proptest::collection::vec(gen::arb_mutation(), 0..=1),
					proptest::collection::vec((any::<u16>(), prop::sample::select(vec![vec![0xffu8], vec![0xc0, 0xaf], vec![0xed, 0xa0, 0x80], vec![0xf4, 0x90, 0x80, 0x80], vec![0x80], vec![0xe2, 0x82], vec![0xc3], vec![0xf8, 0x88, 0x80, 0x80, 0x80]])), 1..=2),
				)
			},
			|(v, ch, inj, muts, bad)| {
				let bytes = two_faults_input(v, ch, inj, muts, bad);
				match property(&bytes, &TWO_EPS) {
					Ok((class, _)) => {
						let v = std::str::from_utf8(&bytes).err().map(|e| e.valid_up_to());
						let nt = match v {
							Some(v) => {
								let prefix = String::from_utf8_lossy(&bytes[..v]);
								prefix.contains('\u{fffd}') || prefix.contains("\\u") || class != 6
							}
							None => false,
						};
						Outcome::ok(nt, vec![CLASSES[class]])
					}
					Err(m) => Outcome::fail(m),
				}
			},
			|(v, ch, inj, muts, bad)| pf::case_json(&two_faults_input(v, ch, inj, muts, bad), &json!({})),
		);
		ctx.add(fam);
	}
	if ctx.wants("F5_grammar_mutation") {
		let n = ctx.pick(20_000, 500_000);
		let fam = Fam::new("F5_grammar_mutation", "proptest: rendered random tree + 1..=3 mutations, all entry points", false);
		let fam = run_proptest(
			ctx,
			fam,
			n,
			|| (gen::arb_doc_value(gen::ValueCfg::MEDIUM), gen::arb_choices(), proptest::collection::vec(gen::arb_mutation(), 1..=3)),
			|(v, ch, muts)| {
				let text = super::c01::f5_text(v, ch, muts);
				match property(text.as_bytes(), &ALL_EPS) {
					Ok((class, nt)) => Outcome::ok(nt, vec![CLASSES[class]]),
					Err(m) => Outcome::fail(m),
				}
			},
			|(v, ch, muts)| pf::case_json(super::c01::f5_text(v, ch, muts).as_bytes(), &json!({})),
		);
		ctx.add(fam);
	}
	ctx.assume("the reference automaton's dead state coincides with 'cannot be extended to a valid text' (every live state of the RFC 8259 grammar is co-reachable)");
	ctx.assume("a surrogate error's span is read as: non-empty, within [backslash of the offending escape, end of the string element that follows it], touching one of the escapes involved");
}

fn two_faults_input(v: &crate::refvalue::RefValue, ch: &[u8], inj: &[(u16, String)], muts: &[gen::Mutation], bad: &[(u16, Vec<u8>)]) -> Vec<u8> {
	let text = gen::render_doc(v, ch, gen::RenderCfg::FREE);
	let text = super::c12::inject(&text, inj);
	let mut chars: Vec<char> = text.chars().collect();
	for m in muts {
		gen::apply_mutation(&mut chars, m);
	}
	let mut bytes: Vec<u8> = chars.into_iter().collect::<String>().into_bytes();
	for (sel, seq) in bad {
		let p = gen::map_index(*sel, bytes.len() + 1);
		for (k, b) in seq.iter().enumerate() {
			bytes.insert(p + k, *b);
		}
	}
	bytes
}

pub fn surrogate_tokens() -> Vec<String> {
	let hi = "\\uD800";
	let lo = "\\uDC00";
	vec![format!("\"{hi}\""), format!("\"{lo}\""), format!("\"{hi}{lo}\""), "\"\\uDBFFx\"".to_string()]
}

pub fn replay(family: &str, case: &J) -> Result<(), String> {
	let input = dec_bytes(case);
	if family == "F7_stream_errors" {
		let text = String::from_utf8(input).map_err(|e| e.to_string())?;
		let chars: Vec<char> = text.chars().collect();
		for k in 0..=chars.len() {
			stream_property(&chars, k).map_err(|m| format!("k={k}: {m}"))?;
		}
		return Ok(());
	}
	property(&input, &ALL_EPS).map(|_| ())
}
