//! C14 — equality, ordering and hashing are coherent and depend only on content.
use crate::framework::{run_proptest, Ctx, Fam, Outcome};
use crate::gen;
use crate::refvalue::RefValue;
use json_syntax::object::{Entry, Key};
use json_syntax::{Object, Parse, Value};
use proptest::prelude::*;
use serde_json::{json, Value as J};
use std::cmp::Ordering;
use std::collections::hash_map::DefaultHasher;
use std::hash::{Hash, Hasher};

/// Records the exact byte stream fed by `Hash::hash`.
#[derive(Default)]
struct Recorder(Vec<u8>);
impl Hasher for Recorder {
	fn finish(&self) -> u64 {
		0
	}
	fn write(&mut self, bytes: &[u8]) {
		self.0.extend_from_slice(bytes);
		self.0.push(0xfe);
	}
}

fn h_default<T: Hash>(t: &T) -> u64 {
	let mut h = DefaultHasher::new();
	t.hash(&mut h);
	h.finish()
}

fn h_stream<T: Hash>(t: &T) -> Vec<u8> {
	let mut h = Recorder::default();
	t.hash(&mut h);
	h.0
}

/// Builds the object with entry list `entries` through construction route `route`.
/// Returns None when the route does not apply to this list.
pub fn build_route(entries: &[(String, RefValue)], route: u8, salt: u64) -> Option<Object> {
	let mk = |(k, v): &(String, RefValue)| Entry::new(Key::from(k.as_str()), v.to_value());
	match route {
		0 => {
			let mut o = Object::new();
			for e in entries {
				o.push(e.0.as_str().into(), e.1.to_value());
			}
			Some(o)
		}
		1 => Some(Object::from_vec(entries.iter().map(mk).collect())),
		2 => {
			let mut o = Object::new();
			for e in entries.iter().rev() {
				o.push_front(e.0.as_str().into(), e.1.to_value());
			}
			Some(o)
		}
		3 => {
			// over-build with junk at pseudo-random positions, then remove it again
			let mut o = Object::new();
			let mut junk_positions = vec![];
			let mut x = salt | 1;
			for (i, e) in entries.iter().enumerate() {
				x = crate::framework::splitmix(x);
				if x % 3 == 0 {
					junk_positions.push(o.len());
					o.push(if x % 2 == 0 { e.0.as_str().into() } else { "junk-key-not-in-target".into() }, Value::from(i as u32));
				}
				o.push(e.0.as_str().into(), e.1.to_value());
			}
			o.push("trailing-junk".into(), Value::Null);
			junk_positions.push(o.len() - 1);
			for p in junk_positions.into_iter().rev() {
				o.remove_at(p);
			}
			Some(o)
		}
		4 => {
			// insert(): only when duplicate-free
			let mut keys: Vec<&str> = entries.iter().map(|e| e.0.as_str()).collect();
			keys.sort();
			if keys.windows(2).any(|w| w[0] == w[1]) {
				return None;
			}
			let mut o = Object::new();
			for e in entries {
				// first a wrong value, then the right one through insert (replaces in place)
				o.push(e.0.as_str().into(), Value::Null);
			}
			for e in entries {
				let _ = o.insert(e.0.as_str().into(), e.1.to_value());
			}
			Some(o)
		}
		5 => {
			let mut o = Object::new();
			let half = entries.len() / 2;
			o.extend(entries[..half].iter().map(mk));
			o.extend(entries[half..].iter().map(|e| (Key::from(e.0.as_str()), e.1.to_value())));
			Some(o)
		}
		6 => build_route(entries, 0, salt).map(|o| o.clone()),
		7 => {
			// build rotated, then sort: only when the target is already in sort order
			let mut sorted = Object::from_vec(entries.iter().map(mk).collect());
			sorted.sort();
			let target = Object::from_vec(entries.iter().map(mk).collect());
			if sorted.entries() != target.entries() {
				return None;
			}
			let mut rot: Vec<Entry> = entries.iter().map(mk).collect();
			if !rot.is_empty() {
				let k = (salt as usize) % rot.len();
				rot.rotate_left(k);
			}
			let mut o = Object::from_vec(rot);
			o.sort();
			Some(o)
		}
		8 => {
			let text = crate::refprint::compact(&RefValue::Obj(entries.to_vec()));
			Value::parse_str(&text).ok().and_then(|(v, _)| v.into_object())
		}
		_ => None,
	}
}

pub const ROUTES: u8 = 9;

fn check_equal_pair<T: Eq + Ord + Hash>(a: &T, b: &T, what: &str) -> Result<(), String> {
	if a != b || b != a {
		return Err(format!("{what}: same content but == is false"));
	}
	if a.cmp(b) != Ordering::Equal || b.cmp(a) != Ordering::Equal || a.partial_cmp(b) != Some(Ordering::Equal) {
		return Err(format!("{what}: same content but cmp is {:?}", a.cmp(b)));
	}
	if h_default(a) != h_default(b) {
		return Err(format!("{what}: same content but different DefaultHasher hashes"));
	}
	if h_stream(a) != h_stream(b) {
		return Err(format!("{what}: same content but different byte streams fed to the Hasher"));
	}
	Ok(())
}

pub fn routes_property(entries: &[(String, RefValue)], salt: u64) -> Result<usize, String> {
	let objs: Vec<(u8, Object)> = (0..ROUTES).filter_map(|r| build_route(entries, r, salt).map(|o| (r, o))).collect();
	for (r, o) in &objs {
		let got: Vec<(String, RefValue)> = o.iter().map(|e| (e.key.as_str().to_string(), RefValue::from_value(&e.value))).collect();
		if got != entries {
			return Err(format!("harness/route {r}: construction did not produce the target entry list: {got:?}"));
		}
	}
	for i in 0..objs.len() {
		for j in i..objs.len() {
			let what = format!("objects built through routes {} and {}", objs[i].0, objs[j].0);
			check_equal_pair(&objs[i].1, &objs[j].1, &what)?;
			let va = Value::Object(objs[i].1.clone());
			let vb = Value::Object(objs[j].1.clone());
			check_equal_pair(&va, &vb, &format!("values wrapping {what}"))?;
		}
	}
	Ok(objs.len())
}

/// A near-copy of `v`: one leaf, one key, one position or one duplicate changed.
pub fn near_copy(v: &RefValue, sel: u16, kind: u8) -> RefValue {
	let mut out = v.clone();
	let n = out.nodes();
	let target = gen::map_index(sel, n);
	let mut counter = 0;
	fn rec(v: &mut RefValue, target: usize, counter: &mut usize, kind: u8) -> bool {
		let here = *counter;
		*counter += 1;
		if here == target {
			match v {
				RefValue::Null => *v = RefValue::Bool(false),
				RefValue::Bool(b) => *v = RefValue::Bool(!*b),
				RefValue::Num(n) => {
					*v = if kind % 2 == 0 {
						// appending a digit keeps the spelling valid unless the number is a bare zero
						if n == "0" || n == "-0" {
							RefValue::Num("1".into())
						} else {
							RefValue::Num(format!("{n}0"))
						}
					} else {
						RefValue::Str(n.clone())
					}
				}
				RefValue::Str(s) => *v = if kind % 2 == 0 { RefValue::Str(format!("{s}\u{0}")) } else { RefValue::Str(s.to_uppercase() + "x") },
				RefValue::Arr(a) => match kind % 3 {
					0 if a.len() >= 2 => a.swap(0, 1),
					1 if !a.is_empty() => {
						a.pop();
					}
					_ => a.push(RefValue::Null),
				},
				RefValue::Obj(o) => match kind % 4 {
					0 if o.len() >= 2 => o.swap(0, 1),
					1 if !o.is_empty() => {
						let k = o[0].0.clone();
						o[0].0 = format!("{k}'");
					}
					2 if !o.is_empty() => {
						let e = o[0].clone();
						o.push(e);
					}
					_ => o.push(("new".into(), RefValue::Null)),
				},
			}
			return true;
		}
		match v {
			RefValue::Arr(a) => a.iter_mut().any(|x| rec(x, target, counter, kind)),
			RefValue::Obj(o) => o.iter_mut().any(|(_, x)| rec(x, target, counter, kind)),
			_ => false,
		}
	}
	rec(&mut out, target, &mut counter, kind);
	out
}

pub fn laws_property(vals: &[RefValue; 3]) -> Result<(bool, Vec<&'static str>), String> {
	let salt = crate::framework::hash64(&format!("{:?}", vals[0]).len());
	let v: Vec<Value> = vals.iter().enumerate().map(|(i, r)| r.to_value_route((salt as u8).wrapping_add(i as u8 * 5))).collect();
	let mut any_equal = false;
	let mut any_diff = false;
	for i in 0..3 {
		// reflexive
		check_equal_pair(&v[i], &v[i].clone(), "a value and its clone")?;
		for j in 0..3 {
			let content_eq = vals[i] == vals[j];
			let eq = v[i] == v[j];
			if eq != content_eq {
				return Err(format!("== is {eq} but the contents are {}: {:?} vs {:?}", if content_eq { "identical" } else { "different" }, vals[i], vals[j]));
			}
			if (v[i] != v[j]) == eq {
				return Err("!= is not the negation of ==".into());
			}
			let c = v[i].cmp(&v[j]);
			if (c == Ordering::Equal) != eq {
				return Err(format!("cmp is {c:?} but == is {eq}: {:?} vs {:?}", vals[i], vals[j]));
			}
			if v[j].cmp(&v[i]) != c.reverse() {
				return Err(format!("cmp(a,b) = {c:?} but cmp(b,a) = {:?}", v[j].cmp(&v[i])));
			}
			if v[i].partial_cmp(&v[j]) != Some(c) {
				return Err("partial_cmp differs from Some(cmp)".into());
			}
			if (v[i] < v[j]) != (c == Ordering::Less) || (v[i] >= v[j]) != (c != Ordering::Less) {
				return Err("comparison operators disagree with cmp".into());
			}
			if eq {
				if h_default(&v[i]) != h_default(&v[j]) || h_stream(&v[i]) != h_stream(&v[j]) {
					return Err(format!("equal values hash differently: {:?}", vals[i]));
				}
				if i != j {
					any_equal = true;
				}
			} else {
				any_diff = true;
			}
			for k in 0..3 {
				// transitivity
				if v[i].cmp(&v[j]) != Ordering::Greater && v[j].cmp(&v[k]) != Ordering::Greater && v[i].cmp(&v[k]) == Ordering::Greater {
					return Err(format!("ordering is not transitive on {:?} <= {:?} <= {:?}", vals[i], vals[j], vals[k]));
				}
			}
		}
	}
	let mut classes = vec![];
	if any_equal && any_diff {
		classes.push("two_equal_one_different");
	}
	if any_equal && !any_diff {
		classes.push("all_equal");
	}
	if !any_equal {
		classes.push("all_different");
	}
	Ok((any_equal && any_diff, classes))
}

pub fn arb_triple() -> BoxedStrategy<[RefValue; 3]> {
	(gen::arb_doc_value(gen::ValueCfg::MEDIUM), any::<u16>(), any::<u8>(), any::<u16>(), any::<u8>(), 0u8..6)
		.prop_map(|(a, s1, k1, s2, k2, shape)| {
			let b = near_copy(&a, s1, k1);
			let c = near_copy(&a, s2, k2);
			match shape {
				0 => [a.clone(), a, b],
				1 => [a.clone(), b, a],
				2 => [b.clone(), a, b],
				3 => [a, b, c],
				4 => [b, c.clone(), c],
				_ => [a.clone(), a.clone(), a],
			}
		})
		.boxed()
}

fn arb_entries() -> BoxedStrategy<Vec<(String, RefValue)>> {
	prop_oneof![6 => proptest::collection::vec((gen::arb_key(true), gen::arb_value(gen::ValueCfg::SMALL)), 0..14), 1 => proptest::collection::vec((gen::arb_long_key(), gen::arb_leaf(false)), 14..80)].boxed()
}

/// M_mixed_size_triples on one case.
pub fn mixed_size_case(prefix: &usize, as_array: &bool, specs: &[(u8, usize, u8)]) -> Outcome {

	let pool = [RefValue::num("0"), RefValue::num("1"), RefValue::num("2"), RefValue::str("x")];
	let mk = |(pick, size, fill): &(u8, usize, u8)| -> RefValue {
		let mut es: Vec<(String, RefValue)> = (0..*prefix).map(|i| (format!("p{i}"), RefValue::Null)).collect();
		es.push(("d".to_string(), pool[*pick as usize].clone()));
		for i in 0..*size {
			es.push((format!("f{}", if *fill == 0 { i } else { i % (*fill as usize + 1) }), RefValue::Num((i % 3).to_string())));
		}
		if *as_array {
			RefValue::Arr(es.into_iter().map(|(_, v)| v).collect())
		} else {
			RefValue::Obj(es)
		}
	};
	let t = [mk(&specs[0]), mk(&specs[1]), mk(&specs[2])];
	match laws_property(&t) {
		Ok(_) => {
			let class = |s: usize| if s < 4 { 0 } else if s < 40 { 1 } else if s < 80 { 2 } else { 3 };
			let cs: std::collections::BTreeSet<usize> = specs.iter().map(|s| class(s.1)).collect();
			Outcome::ok(cs.len() >= 2 && specs.iter().any(|s| s.1 >= 60), vec![])
		}
		Err(m) => Outcome::fail(m),
	}
			}

/// H_after_histories on one case: an object reached through a history of C06 operations vs fresh builds of its final entry list.
pub fn after_history_case(ops: &[super::c06::Op], sel: u16, kind: u8) -> Outcome {
	let universe = ["a", "\u{e000}", "\u{10000}", "c"];
	let (obj, model) = match super::c06::run_history(ops, &universe, false) {
		Ok(x) => x,
		// an operation that misbehaves is C06's business; this family only needs *some* object with a history
		Err(m) => return Outcome::fail(format!("SKIP: the operation history did not produce the modelled object (C06's business) [{m}]")),
	};
	let salt = (*(&sel) as u64) << 8 | kind as u64;
	let cloned = obj.clone();
	if let Err(m) = check_equal_pair(&obj, &cloned, "object after the history vs its clone") {
		return Outcome::fail(m);
	}
	for r in [0u8, 1, 3, 8] {
		if let Some(fresh) = build_route(&model, r, salt) {
			let what = format!("object after the history vs its final entry list built through route {r}");
			if let Err(m) = check_equal_pair(&obj, &fresh, &what) {
				return Outcome::fail(m);
			}
			if let Err(m) = check_equal_pair(&Value::Object(obj.clone()), &Value::Object(fresh), &format!("values wrapping {what}")) {
				return Outcome::fail(m);
			}
		}
	}
	// a near copy of the final entry list: == must agree with the entry lists, cmp must be antisymmetric and Equal iff ==
	let near = near_copy(&RefValue::Obj(model.clone()), sel, kind);
	let expected_eq = near == RefValue::Obj(model.clone());
	let (a, b) = (Value::Object(obj), near.to_value());
	if (a == b) != expected_eq || (b == a) != expected_eq {
		return Outcome::fail(format!("object after the history vs a near copy of its entry list: == is {} but the entry lists are {}", a == b, if expected_eq { "identical" } else { "different" }));
	}
	if (a.cmp(&b) == Ordering::Equal) != expected_eq || a.cmp(&b) != b.cmp(&a).reverse() {
		return Outcome::fail(format!("object after the history vs a near copy of its entry list: cmp {:?} / {:?} while entry lists are {}", a.cmp(&b), b.cmp(&a), if expected_eq { "identical" } else { "different" }));
	}
	if expected_eq && h_stream(&a) != h_stream(&b) {
		return Outcome::fail("object after the history vs an identical rebuild: hash streams differ".into());
	}
	let mut keys: Vec<&str> = model.iter().map(|e| e.0.as_str()).collect();
	keys.sort();
	let has_dup = keys.windows(2).any(|w| w[0] == w[1]);
	let removal = ops.iter().any(|o| matches!(o, super::c06::Op::Remove(..) | super::c06::Op::RemoveAt(_) | super::c06::Op::RemoveUnique(_) | super::c06::Op::Insert(..) | super::c06::Op::InsertFront(..)));
	let reorder = ops.iter().any(|o| matches!(o, super::c06::Op::Sort | super::c06::Op::Canonicalize(_)));
	Outcome::ok(removal && model.len() >= 2, vec![if has_dup { "final_has_duplicates" } else { "final_duplicate_free" }, if reorder { "history_sorts_or_canonicalizes" } else { "history_without_sort" }])
}

pub fn run(ctx: &mut Ctx) {
	if ctx.wants("L_laws_on_triples") {
		let n = ctx.pick(250_000, 1_500_000);
		let fam = Fam::new("L_laws_on_triples", "proptest: a random value and near-copies of it (one leaf, one key, one position or one duplicate changed) arranged as a triple: == must coincide with equality of the reference trees; reflexive, antisymmetric, transitive, cmp == Equal <=> ==, partial_cmp == Some(cmp), operators agree, equal => identical DefaultHasher hash and identical byte stream fed to a recording Hasher; non-trivial = two equal members and one different", false);
		let fam = run_proptest(
			ctx,
			fam,
			n,
			arb_triple,
			|t| match laws_property(t) {
				Ok((nt, classes)) => Outcome::ok(nt, classes),
				Err(m) => Outcome::fail(m),
			},
			|t| json!({"triple": t.iter().map(|v| v.encode()).collect::<Vec<_>>()}),
		);
		ctx.add(fam);
	}
	if ctx.wants("R_construction_routes") {
		let n = ctx.pick(30_000, 500_000);
		let fam = Fam::new("R_construction_routes", "proptest: a target entry list (duplicate keys, nested values) built through up to 9 routes (sequential push; from_vec; reversed push_front; over-build then remove_at; push wrong values then insert in place (duplicate-free lists); extend with both item types; clone; build rotated then sort (sorted targets); parse from text): all pairs must be ==, compare Equal and hash identically (objects and wrapping values); non-trivial = at least 7 routes applied and the list has >= 3 entries", false);
		let fam = run_proptest(
			ctx,
			fam,
			n,
			|| (arb_entries(), any::<u64>(), any::<bool>()),
			|(entries, salt, sort_first)| {
				let mut entries = entries.clone();
				if *sort_first {
					// make route 7 applicable: put the target in Object::sort order
					let mut o = Object::from_vec(entries.iter().map(|(k, v)| Entry::new(k.as_str().into(), v.to_value())).collect());
					o.sort();
					entries = o.iter().map(|e| (e.key.as_str().to_string(), RefValue::from_value(&e.value))).collect();
				}
				match routes_property(&entries, *salt) {
					Ok(routes) => Outcome::ok(routes >= 7 && entries.len() >= 3, vec![if routes == 9 { "routes_9" } else if routes == 8 { "routes_8" } else { "routes_7" }]),
					Err(m) => Outcome::fail(m),
				}
			},
			|(entries, salt, sort_first)| json!({"entries": RefValue::Obj(entries.clone()).encode(), "salt": salt, "sort_first": sort_first}),
		);
		ctx.add(fam);
	}
	// objects reached through operation histories, not only built in one go
	if ctx.wants("H_after_histories") {
		let n = ctx.pick(20_000, 300_000);
		let keys: Vec<String> = vec!["a".into(), "\u{e000}".into(), "\u{10000}".into()];
		let fam = Fam::new("H_after_histories", "proptest: an object produced by a random history of C06 operations over 3 keys (pushes, front insertions, removals by key/position/iterator, insert collapses, sorts, canonicalizations, bulk rebuilds, clones, clone_from) compared with its clone and with its final entry list built afresh through 4 routes (push, from_vec, over-build + remove_at, parse): ==, cmp Equal, same hash (objects and wrapping values); and with a near copy of that list: == and cmp agree with the entry lists; non-trivial = the history contains a removal and >= 2 entries remain", false);
		let ks = keys.clone();
		let fam = run_proptest(
			ctx,
			fam,
			n,
			move || (proptest::collection::vec(super::c06::arb_op(ks.clone(), true), 2..40), any::<u16>(), any::<u8>()),
			|(ops, sel, kind)| after_history_case(ops, *sel, *kind),
			|(ops, sel, kind)| { let mut j = super::c06::ops_json(ops); j["sel"] = json!(sel); j["kind"] = json!(kind); j },
		);
		ctx.add(fam);
	}
	if ctx.wants("M_mixed_size_triples") {
		let n = ctx.pick(60_000, 800_000);
		let fam = Fam::new("M_mixed_size_triples", "proptest: three objects (or arrays) that agree on a common prefix of 0..3 members, then differ in one member drawn from a 4-value pool, followed by fillers whose lengths come from very different size classes (0..4, 28..36, 60..70, 100..140): the same laws (in particular transitivity and cmp == Equal <=> ==) must hold across size classes; non-trivial = the three lengths fall in at least two different classes and at least one is >= 60", false);
		let fam = run_proptest(
			ctx,
			fam,
			n,
			|| {
				let size = prop_oneof![2 => 0usize..4, 1 => 28usize..36, 2 => 60usize..70, 1 => 100usize..140];
				(0usize..3, any::<bool>(), proptest::collection::vec((0u8..4, size, 0u8..3), 3))
			},
			|(prefix, as_array, specs)| mixed_size_case(prefix, as_array, specs),
			|(prefix, as_array, specs)| json!({"prefix": prefix, "as_array": as_array, "specs": specs.iter().map(|s| json!([s.0, s.1, s.2])).collect::<Vec<_>>()}),
		);
		ctx.add(fam);
	}
	if ctx.wants("S_small_exhaustive") {
		ctx.begin_family("S_small_exhaustive");
		// all ordered pairs and triples over a small set of values
		let leaves = [RefValue::Null, RefValue::Bool(false), RefValue::Bool(true), RefValue::num("0"), RefValue::num("1"), RefValue::num("10"), RefValue::num("-1"), RefValue::num("1.0"), RefValue::str(""), RefValue::str("a"), RefValue::str("b")];
		let mut vals: Vec<RefValue> = leaves.to_vec();
		vals.push(RefValue::Arr(vec![]));
		vals.push(RefValue::Obj(vec![]));
		for x in &leaves[..5] {
			vals.push(RefValue::Arr(vec![x.clone()]));
			vals.push(RefValue::Obj(vec![("a".into(), x.clone())]));
			vals.push(RefValue::Obj(vec![("b".into(), x.clone())]));
			vals.push(RefValue::Obj(vec![("a".into(), x.clone()), ("a".into(), RefValue::Null)]));
			vals.push(RefValue::Obj(vec![("a".into(), RefValue::Null), ("a".into(), x.clone())]));
			vals.push(RefValue::Arr(vec![x.clone(), RefValue::Null]));
		}
		let n = vals.len();
		use rayon::prelude::*;
		let proto = Fam::new("S_small_exhaustive", &format!("every ordered triple over {n} small values (all kinds, empty containers, duplicate keys in both orders): the same laws"), true);
		let fam = (0..n)
			.into_par_iter()
			.fold(
				|| proto.fresh(),
				|mut fam, i| {
					for j in 0..n {
						for k in 0..n {
							fam.tick();
							let t = [vals[i].clone(), vals[j].clone(), vals[k].clone()];
							match crate::framework::guarded(|| laws_property(&t)) {
								Ok(Ok(_)) => {
									if i != j && j != k {
										fam.nontrivial()
									}
								}
								Ok(Err(m)) | Err(m) => fam.fail(json!({"triple": t.iter().map(|v| v.encode()).collect::<Vec<_>>()}), m, None),
							}
						}
					}
					fam
				},
			)
			.reduce(|| proto.fresh(), |mut a, b| { a.merge(b); a });
		let mut fam = fam;
		fam.sample(|| json!({"triple": [vals[3].encode(), vals[5].encode(), vals[20].encode()]}));
		ctx.add(fam);
	}
	ctx.assume("'content' = the reference tree read back through public accessors (items, entries in order, number spelling, string scalars)");
}

pub fn replay(family: &str, case: &J) -> Result<(), String> {
	if family == "M_mixed_size_triples" {
		let specs: Vec<(u8, usize, u8)> = case["specs"].as_array().ok_or("bad case")?.iter().map(|e| (e[0].as_u64().unwrap() as u8, e[1].as_u64().unwrap() as usize, e[2].as_u64().unwrap() as u8)).collect();
		return match mixed_size_case(&(case["prefix"].as_u64().unwrap() as usize), &case["as_array"].as_bool().unwrap(), &specs).verdict {
			Ok(()) => Ok(()),
			Err((m, _)) => Err(m),
		};
	}
	if family == "H_after_histories" {
		let ops: Vec<super::c06::Op> = case["ops"].as_array().ok_or("bad case")?.iter().map(super::c06::dec_op).collect();
		return match after_history_case(&ops, case["sel"].as_u64().unwrap_or(0) as u16, case["kind"].as_u64().unwrap_or(0) as u8).verdict {
			Ok(()) => Ok(()),
			Err((m, _)) => Err(m),
		};
	}
	if family == "R_construction_routes" {
		let entries = match RefValue::decode(&case["entries"]) {
			RefValue::Obj(e) => e,
			_ => return Err("bad case".into()),
		};
		return routes_property(&entries, case["salt"].as_u64().unwrap_or(0)).map(|_| ());
	}
	let t: Vec<RefValue> = case["triple"].as_array().ok_or("bad case")?.iter().map(RefValue::decode).collect();
	laws_property(&[t[0].clone(), t[1].clone(), t[2].clone()]).map(|_| ())
}
