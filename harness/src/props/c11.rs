//! C11 — code-map offsets navigate correctly (mapped iterators, fragment index, TryFrom).
use crate::framework::{dec_bytes, run_proptest, Ctx, Fam, Outcome};
use crate::gen;
use crate::parsefam::{self as pf, Acc};
use crate::refjson::{ref_parse, FragKind, RefDoc};
use crate::refvalue::RefValue;
use json_syntax::array::JsonArray;
use json_syntax::code_map::Mapped;
use json_syntax::{CodeMap, FragmentRef, Kind, KindSet, Parse, TryFromJson, Unexpected, Value};
use proptest::prelude::*;
use serde_json::{json, Value as J};
use std::collections::BTreeMap;

pub const CLASSES: &[&str] = &["not_a_valid_document", "flat", "item_after_wide_sibling", "nested", "with_duplicate_keys"];

fn frag_id(f: FragmentRef) -> (u8, usize) {
	match f {
		FragmentRef::Value(v) => (0, v as *const _ as usize),
		FragmentRef::Entry(e) => (1, e as *const _ as usize),
		FragmentRef::Key(k) => (2, k as *const _ as usize),
	}
}

/// Walks the parsed value and the reference fragment table in parallel.
/// `idx` is the reference index of `v`.
fn walk(v: &Value, cm: &CodeMap, doc: &RefDoc, idx: usize, stats: &mut (bool, bool)) -> Result<(), String> {
	let frags = &doc.frags;
	match v {
		Value::Array(a) => {
			// expected child indices
			let mut exp = vec![];
			let mut j = idx + 1;
			for _ in a.iter() {
				exp.push(j);
				j += frags[j].volume;
			}
			if j != idx + frags[idx].volume {
				return Err("harness: reference volumes inconsistent".into());
			}
			let got: Vec<(usize, usize)> = a.iter_mapped(cm, idx).map(|m| (m.offset, m.value as *const _ as usize)).collect();
			let want: Vec<(usize, usize)> = exp.iter().zip(a.iter()).map(|(o, x)| (*o, x as *const _ as usize)).collect();
			if got != want {
				return Err(format!("array at fragment {idx}: iter_mapped offsets {:?}, expected {:?}", got.iter().map(|x| x.0).collect::<Vec<_>>(), exp));
			}
			let got2: Vec<usize> = a.as_slice().iter_mapped(cm, idx).map(|m| m.offset).collect();
			if got2 != exp {
				return Err(format!("slice at fragment {idx}: iter_mapped offsets {got2:?}, expected {exp:?}"));
			}
			for (k, (o, x)) in exp.iter().zip(a.iter()).enumerate() {
				if x.is_array() || x.is_object() {
					stats.0 = true;
				}
				if k > 0 && frags[exp[k - 1]].volume > 1 {
					stats.1 = true;
				}
				walk(x, cm, doc, *o, stats)?;
			}
			Ok(())
		}
		Value::Object(o) => {
			let mut exp = vec![]; // entry indices
			let mut j = idx + 1;
			for _ in o.iter() {
				if frags[j].kind != FragKind::Entry {
					return Err("harness: expected an entry fragment".into());
				}
				exp.push(j);
				j += frags[j].volume;
			}
			let got: Vec<(usize, usize, usize, usize, usize)> = o
				.iter_mapped(cm, idx)
				.map(|m| (m.offset, m.value.key.offset, m.value.value.offset, m.value.key.value as *const _ as usize, m.value.value.value as *const _ as usize))
				.collect();
			let want: Vec<(usize, usize, usize, usize, usize)> =
				exp.iter().zip(o.iter()).map(|(e, en)| (*e, e + 1, e + 2, &en.key as *const _ as usize, &en.value as *const _ as usize)).collect();
			if got != want {
				return Err(format!(
					"object at fragment {idx}: iter_mapped (entry,key,value) offsets {:?}, expected {:?}",
					got.iter().map(|x| (x.0, x.1, x.2)).collect::<Vec<_>>(),
					want.iter().map(|x| (x.0, x.1, x.2)).collect::<Vec<_>>()
				));
			}
			// key-based mapped lookups
			let mut keys: Vec<&str> = o.iter().map(|e| e.key.as_str()).collect();
			keys.push("absent\u{2}key");
			keys.sort();
			keys.dedup();
			for key in keys {
				let pos: Vec<usize> = o.iter().enumerate().filter(|(_, e)| e.key.as_str() == key).map(|(i, _)| i).collect();
				let want_e: Vec<(usize, usize, usize, usize)> = pos.iter().map(|&p| (p, exp[p], exp[p] + 1, exp[p] + 2)).collect();
				let g1: Vec<(usize, usize, usize)> = o.get_mapped_entries(cm, idx, key).map(|m| (m.offset, m.value.key.offset, m.value.value.offset)).collect();
				let w1: Vec<(usize, usize, usize)> = want_e.iter().map(|x| (x.1, x.2, x.3)).collect();
				if g1 != w1 {
					return Err(format!("object at fragment {idx}: get_mapped_entries({key:?}) offsets {g1:?}, expected {w1:?}"));
				}
				for (m, &p) in o.get_mapped_entries(cm, idx, key).zip(&pos) {
					if m.value.value.value as *const Value != &o.entries()[p].value as *const Value {
						return Err(format!("get_mapped_entries({key:?}) yields a value that is not entry {p}'s"));
					}
				}
				let g2: Vec<(usize, usize, usize, usize)> = o.get_mapped_entries_with_index(cm, idx, key).map(|(i, m)| (i, m.offset, m.value.key.offset, m.value.value.offset)).collect();
				if g2 != want_e {
					return Err(format!("object at fragment {idx}: get_mapped_entries_with_index({key:?}) = {g2:?}, expected {want_e:?}"));
				}
				let g3: Vec<usize> = o.get_mapped(cm, idx, key).map(|m| m.offset).collect();
				let w3: Vec<usize> = want_e.iter().map(|x| x.3).collect();
				if g3 != w3 {
					return Err(format!("object at fragment {idx}: get_mapped({key:?}) offsets {g3:?}, expected {w3:?}"));
				}
				let g4: Vec<(usize, usize)> = o.get_mapped_with_index(cm, idx, key).map(|(i, m)| (i, m.offset)).collect();
				let w4: Vec<(usize, usize)> = want_e.iter().map(|x| (x.0, x.3)).collect();
				if g4 != w4 {
					return Err(format!("object at fragment {idx}: get_mapped_with_index({key:?}) = {g4:?}, expected {w4:?}"));
				}
				// unique variants
				let n = pos.len();
				let u1 = o.get_unique_mapped_entry(cm, idx, key);
				let ok1 = match (&u1, n) {
					(Ok(None), 0) => true,
					(Ok(Some(m)), 1) => m.offset == want_e[0].1,
					(Err(d), k) if k >= 2 => d.0.offset == want_e[0].1 && d.1.offset == want_e[1].1,
					_ => false,
				};
				let u2 = o.get_unique_mapped_entry_with_index(cm, idx, key);
				let ok2 = match (&u2, n) {
					(Ok(None), 0) => true,
					(Ok(Some((i, m))), 1) => *i == want_e[0].0 && m.offset == want_e[0].1,
					(Err(d), k) if k >= 2 => d.0 .0 == want_e[0].0 && d.0 .1.offset == want_e[0].1 && d.1 .0 == want_e[1].0 && d.1 .1.offset == want_e[1].1,
					_ => false,
				};
				let u3 = o.get_unique_mapped(cm, idx, key);
				let ok3 = match (&u3, n) {
					(Ok(None), 0) => true,
					(Ok(Some(m)), 1) => m.offset == want_e[0].3,
					(Err(d), k) if k >= 2 => d.0.offset == want_e[0].3 && d.1.offset == want_e[1].3,
					_ => false,
				};
				let u4 = o.get_unique_mapped_with_index(cm, idx, key);
				let ok4 = match (&u4, n) {
					(Ok(None), 0) => true,
					(Ok(Some((i, m))), 1) => *i == want_e[0].0 && m.offset == want_e[0].3,
					(Err(d), k) if k >= 2 => d.0 .0 == want_e[0].0 && d.0 .1.offset == want_e[0].3 && d.1 .0 == want_e[1].0 && d.1 .1.offset == want_e[1].3,
					_ => false,
				};
				if !(ok1 && ok2 && ok3 && ok4) {
					return Err(format!("object at fragment {idx}: a get_unique_mapped* lookup of {key:?} ({n} matching entries) is wrong [{ok1} {ok2} {ok3} {ok4}]"));
				}
			}
			for (k, (e, en)) in exp.iter().zip(o.iter()).enumerate() {
				if en.value.is_array() || en.value.is_object() {
					stats.0 = true;
				}
				if k > 0 && frags[exp[k - 1]].volume > 3 {
					stats.1 = true;
				}
				walk(&en.value, cm, doc, e + 2, stats)?;
			}
			Ok(())
		}
		_ => Ok(()),
	}
}

pub fn property(text: &str) -> Result<(usize, bool), String> {
	let chars: Vec<char> = text.chars().collect();
	let r = ref_parse(&chars, true);
	if r.syntax_err.is_some() {
		return Ok((0, false));
	}
	let strict_ok = r.events.is_empty();
	let doc = r.doc.unwrap();
	let mut result = (0, false);
	// three ways to obtain (value, code map): strict parse_str; parse over DecodedChar with UTF-16 lengths;
	// flexible options when the document has unpaired/lone surrogate escapes
	for mode in 0..5 {
		// modes 1, 3, 4: DecodedChar streams whose source lengths are UTF-16 code units, UTF-16 bytes, constant 3
		let lengths = |len: &dyn Fn(char) -> usize| {
			let mut o = Vec::with_capacity(chars.len() + 1);
			let mut p = 0;
			for c in &chars {
				o.push(p);
				p += len(*c);
			}
			o.push(p);
			o
		};
		let parsed = match mode {
			3 if strict_ok => Some((Value::parse(chars.iter().map(|c| Ok::<_, ()>(decoded_char::DecodedChar::new(*c, 2 * c.len_utf16())))).map_err(|e| format!("{e:?}")), lengths(&|c| 2 * c.len_utf16()))),
			4 if strict_ok => Some((Value::parse_infallible_with(chars.iter().map(|c| decoded_char::DecodedChar::new(*c, 3)), json_syntax::parse::Options::strict()).map_err(|e| format!("{e:?}")), lengths(&|_| 3))),
			0 if strict_ok => Some((Value::parse_str(text).map_err(|e| format!("{e:?}")), crate::refjson::utf8_offsets(&chars))),
			1 if strict_ok => {
				let mut o = Vec::with_capacity(chars.len() + 1);
				let mut p = 0;
				for c in &chars {
					o.push(p);
					p += c.len_utf16();
				}
				o.push(p);
				Some((Value::parse_infallible(chars.iter().map(|c| decoded_char::DecodedChar::from_utf16(*c))).map_err(|e| format!("{e:?}")), o))
			}
			2 if !strict_ok => Some((Value::parse_str_with(text, json_syntax::parse::Options::flexible()).map_err(|e| format!("{e:?}")), crate::refjson::utf8_offsets(&chars))),
			_ => None,
		};
		if let Some((res, off)) = parsed {
			let (v, cm) = res.map_err(|e| format!("SKIP: the parser rejected a document the reference accepts (acceptance is C01's business) [mode {mode}: {e}]"))?;
			// the index handed out for an element must be the one whose span is that element's source text
			for (i, f) in doc.frags.iter().enumerate() {
				match cm.get(i) {
					Some(e) if e.span.start() == off[f.start] && e.span.end() == off[f.end] => {}
					other => return Err(format!("mode {mode}: code-map entry {i} is {:?}, the fragment's source text is {}..{}", other.map(|e| (e.span.start(), e.span.end())), off[f.start], off[f.end])),
				}
			}
			result = navigate(&v, &cm, &doc).map_err(|m| format!("mode {mode} (0 = parse_str, 1 = parse_infallible over UTF-16 code units, 2 = flexible options, 3 = parse over UTF-16 byte lengths, 4 = parse_infallible_with over constant length 3): {m}"))?;
		}
	}
	Ok(result)
}

fn recloned(v: &Value) -> Value {
	match v {
		Value::Array(a) => Value::Array(a.iter().map(recloned).collect()),
		Value::Object(src) => {
			let mut o = json_syntax::Object::new();
			o.push("previous".into(), Value::Null);
			o.push("content".into(), Value::Null);
			o.clone_from(src);
			for e in o.iter_mut() {
				let r = recloned(e.1);
				*e.1 = r;
			}
			Value::Object(o)
		}
		other => other.clone(),
	}
}

fn navigate(v: &Value, cm: &CodeMap, doc: &RefDoc) -> Result<(usize, bool), String> {
	let (v, cm) = (v.clone(), cm.clone());
	let n = doc.frags.len();
	if cm.len() != n {
		return Err(format!("code map has {} entries, the document has {n} fragments (C05)", cm.len()));
	}
	let mut stats = (false, false);
	walk(&v, &cm, doc, 0, &mut stats)?;
	// the same navigation on a copy whose objects were produced by `clone_from` into objects with a life of their own
	let mut stats2 = (false, false);
	walk(&recloned(&v), &cm, doc, 0, &mut stats2).map_err(|m| format!("on a copy made with Object::clone_from: {m}"))?;
	// get_fragment(i) == i-th fragment of the traversal; past the end: remaining distance
	let trav: Vec<(u8, usize)> = v.traverse().map(|(_, f)| frag_id(f)).collect();
	if trav.len() != n {
		return Err(format!("traverse() yields {} fragments, the document has {n}", trav.len()));
	}
	for i in 0..n + 3 {
		match v.get_fragment(i) {
			Ok(f) => {
				if i >= n || frag_id(f) != trav[i] {
					return Err(format!("get_fragment({i}) is not the {i}-th fragment of the traversal (document has {n})"));
				}
				let kind_ok = match (f, doc.frags[i].kind) {
					(FragmentRef::Value(_), FragKind::Value) | (FragmentRef::Entry(_), FragKind::Entry) | (FragmentRef::Key(_), FragKind::Key) => true,
					_ => false,
				};
				if !kind_ok {
					return Err(format!("get_fragment({i}) has the wrong fragment kind"));
				}
			}
			Err(d) => {
				if i < n || d != i - n {
					return Err(format!("get_fragment({i}) = Err({d}) on a document with {n} fragments (expected {})", if i < n { "Ok".to_string() } else { format!("Err({})", i - n) }));
				}
			}
		}
	}
	// volume / count
	let values = doc.frags.iter().filter(|f| f.kind == FragKind::Value).count();
	if v.volume() != values {
		return Err(format!("volume() = {}, the document has {values} values", v.volume()));
	}
	if v.count(|_, _| true) != n {
		return Err(format!("count(all) = {}, the document has {n} fragments", v.count(|_, _| true)));
	}
	let mut contents = vec![];
	super::c05::preorder(&doc.value, &mut contents);
	let strings = contents.iter().filter(|c| matches!(c, super::c05::Content::Value(RefValue::Str(_)))).count();
	let keys = contents.iter().filter(|c| matches!(c, super::c05::Content::Key(_))).count();
	let odd_numbers = contents.iter().enumerate().filter(|(i, c)| i % 2 == 1 && matches!(c, super::c05::Content::Value(RefValue::Num(_)))).count();
	if v.count(|_, f| f.is_string()) != strings || v.count(|_, f| f.is_key()) != keys || v.count(|i, f| i % 2 == 1 && f.is_number()) != odd_numbers {
		return Err("count(predicate) disagrees with the document".into());
	}
	let class = if doc.value.has_duplicate_keys() {
		4
	} else if stats.1 {
		2
	} else if stats.0 {
		3
	} else {
		1
	};
	Ok((class, stats.1 || (stats.0 && doc.value.has_duplicate_keys())))
}

/// Rendered tree with surrogate escapes injected after the opening quote, or (at_end) before the closing quote, of some strings.
pub fn lenient_text(v: &RefValue, ch: &[u8], inj: &[(u16, String)], at_end: bool) -> String {
	let text = gen::render_doc(v, ch, gen::RenderCfg::FREE);
	if !at_end {
		return super::c12::inject(&text, inj);
	}
	// inject before the closing quote of string literals
	let chars: Vec<char> = text.chars().collect();
	let r = ref_parse(&chars, true);
	let doc = match r.doc {
		Some(d) => d,
		None => return text,
	};
	let ends: Vec<usize> = doc.frags.iter().filter(|f| chars[f.start] == '"' && f.kind != FragKind::Entry).map(|f| f.end - 1).collect();
	if ends.is_empty() {
		return text;
	}
	let mut inserts: Vec<(usize, &str)> = inj.iter().map(|(sel, s)| (ends[gen::map_index(*sel, ends.len())], s.as_str())).collect();
	inserts.sort_by_key(|x| x.0);
	let mut out = String::new();
	let mut k = 0;
	for (i, c) in chars.iter().enumerate() {
		while k < inserts.len() && inserts[k].0 == i {
			out.push_str(inserts[k].1);
			k += 1;
		}
		out.push(*c);
	}
	out
}

fn checker(acc: &mut Acc, input: &[u8]) {
	let text = match std::str::from_utf8(input) {
		Ok(t) => t,
		Err(_) => return,
	};
	match property(text) {
		Ok((class, nt)) => {
			acc.class(class);
			if nt {
				acc.nontrivial(input);
			}
		}
		Err(m) => acc.fail(input, m),
	}
}

// ---------------------------------------------------------------------------
// conversions carrying code-map information

#[derive(Debug, PartialEq)]
pub enum ConvErr {
	Kind { offset: usize, expected: KindSet, found: Kind },
	Key { offset: usize },
}

impl From<Mapped<Unexpected>> for ConvErr {
	fn from(m: Mapped<Unexpected>) -> Self {
		ConvErr::Kind {
			offset: m.offset,
			expected: m.value.expected,
			found: m.value.found,
		}
	}
}

impl From<Mapped<std::num::ParseIntError>> for ConvErr {
	fn from(m: Mapped<std::num::ParseIntError>) -> Self {
		ConvErr::Key { offset: m.offset }
	}
}

impl From<Mapped<std::convert::Infallible>> for ConvErr {
	fn from(m: Mapped<std::convert::Infallible>) -> Self {
		match m.value {}
	}
}

/// Harness-defined leaf: a JSON boolean.
#[derive(Debug, PartialEq, Clone, Copy)]
pub struct Leaf(bool);

impl TryFromJson for Leaf {
	type Error = ConvErr;
	fn try_from_json_at(json: &Value, code_map: &CodeMap, offset: usize) -> Result<Self, ConvErr> {
		bool::try_from_json_at(json, code_map, offset).map(Leaf).map_err(ConvErr::from)
	}
}

/// Shapes of documents for the conversion family.
#[derive(Debug, Clone, serde::Serialize, serde::Deserialize)]
pub enum Shape {
	/// `Vec<Leaf>`
	V(Vec<bool>),
	/// `Vec<Vec<Leaf>>`
	VV(Vec<Vec<bool>>),
	/// `BTreeMap<u8, Leaf>`
	M(Vec<(u8, bool)>),
	/// `BTreeMap<String, Vec<Option<Box<Leaf>>>>`
	MV(Vec<(String, Vec<Option<bool>>)>),
	/// `Vec<BTreeMap<u8, Vec<Leaf>>>`
	VMV(Vec<Vec<(u8, Vec<bool>)>>),
}

fn b(x: bool) -> RefValue {
	RefValue::Bool(x)
}

impl Shape {
	pub fn tree(&self) -> RefValue {
		match self {
			Shape::V(v) => RefValue::Arr(v.iter().map(|x| b(*x)).collect()),
			Shape::VV(v) => RefValue::Arr(v.iter().map(|r| RefValue::Arr(r.iter().map(|x| b(*x)).collect())).collect()),
			Shape::M(m) => RefValue::Obj(m.iter().map(|(k, x)| (k.to_string(), b(*x))).collect()),
			Shape::MV(m) => RefValue::Obj(
				m.iter()
					.map(|(k, r)| (k.clone(), RefValue::Arr(r.iter().map(|x| x.map(b).unwrap_or(RefValue::Null)).collect())))
					.collect(),
			),
			Shape::VMV(v) => RefValue::Arr(
				v.iter()
					.map(|m| RefValue::Obj(m.iter().map(|(k, r)| (k.to_string(), RefValue::Arr(r.iter().map(|x| b(*x)).collect()))).collect()))
					.collect(),
			),
		}
	}

	/// Converts the parsed document with the conversion matching the shape.
	fn convert(&self, v: &Value, cm: &CodeMap) -> Result<(), ConvErr> {
		match self {
			Shape::V(_) => Vec::<Leaf>::try_from_json(v, cm).map(|_| ()),
			Shape::VV(_) => Vec::<Vec<Leaf>>::try_from_json(v, cm).map(|_| ()),
			Shape::M(_) => BTreeMap::<u8, Leaf>::try_from_json(v, cm).map(|_| ()),
			Shape::MV(_) => BTreeMap::<String, Vec<Option<Box<Leaf>>>>::try_from_json(v, cm).map(|_| ()),
			Shape::VMV(_) => Vec::<BTreeMap<u8, Vec<Leaf>>>::try_from_json(v, cm).map(|_| ()),
		}
	}
}

fn arb_shape() -> BoxedStrategy<Shape> {
	use proptest::collection::vec;
	prop_oneof![
		vec(any::<bool>(), 0..6).prop_map(Shape::V),
		vec(vec(any::<bool>(), 0..4), 0..5).prop_map(Shape::VV),
		vec((any::<u8>(), any::<bool>()), 0..6).prop_map(Shape::M),
		vec(("[a-c]{0,2}", vec(proptest::option::of(any::<bool>()), 0..4)), 0..5).prop_map(Shape::MV),
		vec(vec((any::<u8>(), vec(any::<bool>(), 0..3)), 0..3), 0..4).prop_map(Shape::VMV),
	]
	.boxed()
}

/// Replaces the value (or key) at pre-order fragment `target` of `tree`.
/// Returns false if the target is not replaceable.
fn plant(tree: &mut RefValue, target: usize, counter: &mut usize, wrong: &RefValue, bad_key: &str) -> bool {
	let here = *counter;
	*counter += 1;
	if here == target {
		*tree = wrong.clone();
		return true;
	}
	match tree {
		RefValue::Arr(a) => {
			for x in a.iter_mut() {
				if plant(x, target, counter, wrong, bad_key) {
					return true;
				}
			}
			false
		}
		RefValue::Obj(o) => {
			for (k, x) in o.iter_mut() {
				*counter += 1; // entry
				if *counter == target {
					// key fragment
					*k = bad_key.to_string();
					return true;
				}
				*counter += 1; // key
				if plant(x, target, counter, wrong, bad_key) {
					return true;
				}
			}
			false
		}
		_ => false,
	}
}

/// Expected first conversion error of a planted document, computed on the
/// reference tree: pre-order walk in conversion order.
fn expected_error(shape: &Shape, tree: &RefValue) -> Option<(usize, bool)> {
	// returns (fragment index, is_key_error)
	fn leaf(v: &RefValue, idx: usize) -> Option<(usize, bool)> {
		if matches!(v, RefValue::Bool(_)) {
			None
		} else {
			Some((idx, false))
		}
	}
	fn opt_leaf(v: &RefValue, idx: usize) -> Option<(usize, bool)> {
		if matches!(v, RefValue::Null) {
			None
		} else {
			leaf(v, idx)
		}
	}
	fn seq(v: &RefValue, idx: usize, item: &dyn Fn(&RefValue, usize) -> Option<(usize, bool)>) -> Option<(usize, bool)> {
		match v {
			RefValue::Arr(a) => {
				let mut j = idx + 1;
				for x in a {
					if let Some(e) = item(x, j) {
						return Some(e);
					}
					j += x.fragments();
				}
				None
			}
			_ => Some((idx, false)),
		}
	}
	fn map(v: &RefValue, idx: usize, numeric_keys: bool, item: &dyn Fn(&RefValue, usize) -> Option<(usize, bool)>) -> Option<(usize, bool)> {
		match v {
			RefValue::Obj(o) => {
				let mut j = idx + 1;
				for (k, x) in o {
					if numeric_keys && k.parse::<u8>().is_err() {
						return Some((j + 1, true));
					}
					if let Some(e) = item(x, j + 2) {
						return Some(e);
					}
					j += 2 + x.fragments();
				}
				None
			}
			_ => Some((idx, false)),
		}
	}
	match shape {
		Shape::V(_) => seq(tree, 0, &leaf),
		Shape::VV(_) => seq(tree, 0, &|v, i| seq(v, i, &leaf)),
		Shape::M(_) => map(tree, 0, true, &leaf),
		Shape::MV(_) => map(tree, 0, false, &|v, i| seq(v, i, &opt_leaf)),
		Shape::VMV(_) => seq(tree, 0, &|v, i| map(v, i, true, &|v, i| seq(v, i, &leaf))),
	}
}

pub fn conversion_property(shape: &Shape, choices: &[u8], target: u16, wrong_sel: u8) -> Result<(bool, &'static str), String> {
	let mut tree = shape.tree();
	let n = tree.fragments();
	let target = gen::map_index(target, n + 1); // n = plant nothing
	let wrongs = [RefValue::num("7"), RefValue::str("x"), RefValue::Null, RefValue::Arr(vec![RefValue::num("1"), RefValue::num("2")]), RefValue::Obj(vec![("q".into(), RefValue::Null)]), RefValue::Bool(true)];
	let wrong = &wrongs[wrong_sel as usize % wrongs.len()];
	let mut planted = false;
	if target < n {
		let mut c = 0;
		planted = plant(&mut tree, target, &mut c, wrong, "not-a-number");
	}
	let text = gen::render_doc(&tree, choices, gen::RenderCfg::FREE);
	let (v, cm) = Value::parse_str(&text).map_err(|e| format!("SKIP: the parser rejected a document the reference accepts (acceptance is C01's business) [{e:?}]"))?;
	let expected = expected_error(shape, &tree);
	let got = shape.convert(&v, &cm);
	match (&got, expected) {
		(Ok(()), None) => Ok((false, if planted { "planted_but_still_convertible" } else { "convertible" })),
		(Err(ConvErr::Kind { offset, found, .. }), Some((idx, false))) => {
			if *offset != idx {
				return Err(format!("conversion of {text:?} reports a kind mismatch at code-map index {offset}, the offending fragment is {idx}"));
			}
			// the reported index must map to the offending source text
			let span = cm[*offset].span;
			let src = &text[span.start()..span.end()];
			let again = Value::parse_str(src).map_err(|_| format!("span of the reported index {offset} is not a value: {src:?}"))?.0;
			if again.kind() != *found {
				return Err(format!("reported 'found {found}' but the span of index {offset} is {src:?}"));
			}
			Ok((true, "kind_mismatch"))
		}
		(Err(ConvErr::Key { offset }), Some((idx, true))) => {
			if *offset != idx {
				return Err(format!("conversion of {text:?} reports an unparsable key at code-map index {offset}, the key fragment is {idx}"));
			}
			Ok((true, "key_error"))
		}
		(g, e) => Err(format!("conversion of {text:?} gave {g:?}, expected first error at {e:?} (fragment index, is_key)")),
	}
}

pub fn run(ctx: &mut Ctx) {
	let rule_nt = "non-trivial = some item/entry is preceded by a sibling whose subtree has more than one value (offsets must skip a volume), or nesting with duplicate keys";
	if ctx.wants("F2_valid_token_documents") {
		let ntok = ctx.pick(8, 9);
		ctx.begin_family("F2_valid_token_documents");
		let tokens: Vec<String> = ["[", "]", "{", "}", ",", ":", "\"k\"", "\"j\"", "0", " "].iter().map(|s| s.to_string()).collect();
		let acc = pf::enum_token_seqs(&tokens, ntok, &checker);
		ctx.add(acc.into_fam("F2_valid_token_documents", &format!("every valid document among all sequences of <= {ntok} tokens over {tokens:?} (nested containers, duplicate keys k/k, empty containers); {rule_nt}"), true, CLASSES, &json!({})));
	}
	if ctx.wants("G_rendered_trees") {
		let n = ctx.pick(200_000, 2_000_000);
		let fam = Fam::new("G_rendered_trees", &format!("proptest: random tree (duplicate keys, nesting <= 5) rendered with random whitespace; {rule_nt}"), false);
		let fam = run_proptest(
			ctx,
			fam,
			n,
			|| (prop_oneof![6 => gen::arb_container_value(gen::ValueCfg { depth: 5, width: 5, dup_keys: true, big_numbers: false }), 1 => gen::arb_large_value(true)], gen::arb_choices()),
			|(v, ch)| {
				let text = gen::render_doc(v, ch, gen::RenderCfg::FREE);
				match property(&text) {
					Ok((0, _)) => Outcome::fail("harness: generated rendering rejected by the reference".into()),
					Ok((class, nt)) => Outcome::ok(nt, vec![CLASSES[class]]),
					Err(m) => Outcome::fail(m),
				}
			},
			|(v, ch)| pf::case_json(gen::render_doc(v, ch, gen::RenderCfg::FREE).as_bytes(), &json!({})),
		);
		ctx.add(fam);
	}
	if ctx.wants("X_lenient_documents") {
		let n = ctx.pick(40_000, 600_000);
		let fam = Fam::new("X_lenient_documents", "proptest: rendered trees with sequences of unpaired/lone surrogate escapes injected into string literals (values and keys, also right before the closing quote), parsed with the flexible options: the code map handed to the navigation API must carry the source spans, and every mapped iterator / lookup / get_fragment must agree with the reference fragment table; non-trivial = the document is not strict-valid and has a container", false);
		let fam = run_proptest(
			ctx,
			fam,
			n,
			|| (gen::arb_container_value(gen::ValueCfg { depth: 3, width: 4, dup_keys: true, big_numbers: false }), gen::arb_choices(), proptest::collection::vec((any::<u16>(), super::c12::arb_elements()), 1..=3), any::<bool>()),
			|(v, ch, inj, at_end)| {
				let text = lenient_text(v, ch, inj, *at_end);
				let chars: Vec<char> = text.chars().collect();
				let strict = ref_parse(&chars, false).accepted_strict();
				match property(&text) {
					Ok((_, _)) => Outcome::ok(!strict, vec![if strict { "strict_valid" } else { "needs_lenient_options" }]),
					Err(m) => Outcome::fail(m),
				}
			},
			|(v, ch, inj, at_end)| pf::case_json(lenient_text(v, ch, inj, *at_end).as_bytes(), &json!({})),
		);
		ctx.add(fam);
	}
	if ctx.wants("T_conversions") {
		let n = ctx.pick(200_000, 2_000_000);
		let fam = Fam::new("T_conversions", "proptest: documents shaped for Vec<T>, Vec<Vec<T>>, BTreeMap<u8,T>, BTreeMap<String,Vec<Option<Box<T>>>>, Vec<BTreeMap<u8,Vec<T>>> (T = harness leaf over bool) with one wrong-kind value or unparsable key planted at a random fragment; the reported code-map index must be the planted fragment's; non-trivial = an error was expected", false);
		let fam = run_proptest(
			ctx,
			fam,
			n,
			|| (arb_shape(), gen::arb_choices(), any::<u16>(), any::<u8>()),
			|(shape, ch, target, wrong)| match conversion_property(shape, ch, *target, *wrong) {
				Ok((nt, class)) => Outcome::ok(nt, vec![class]),
				Err(m) => Outcome::fail(m),
			},
			|(shape, ch, target, wrong)| json!({"shape": serde_json::to_value(shape).unwrap_or(J::Null), "shown": format!("{shape:?}"), "choices": ch, "target": target, "wrong": wrong}),
		);
		ctx.add(fam);
	}
	if ctx.wants("T_builtin_leaves") {
		ctx.begin_family("T_builtin_leaves");
		let mut fam = Fam::new("T_builtin_leaves", "every built-in leaf conversion ((), bool, 12 number types, String, Option, Box) on a value of each of the 6 kinds at root and as try_from_json_at with offsets 0..4: error carries the given offset and the found kind", true);
		let docs = ["null", "true", "12", "\"s\"", "[1]", "{\"a\":1}", "-3", "1.5", "300", "1e2"];
		for d in docs {
			let (v, cm) = Value::parse_str(d).unwrap();
			for off in 0..4usize {
				macro_rules! leaf {
					($ty:ty, $ok:expr) => {{
						fam.tick();
						let r = <$ty>::try_from_json_at(&v, &cm, off);
						let expect_ok: bool = $ok;
						match r {
							Ok(_) if expect_ok => fam.nontrivial(),
							Err(e) if !expect_ok => {
								if e.offset != off {
									fam.fail(json!({"doc": d, "type": stringify!($ty), "offset": off}), format!("{}::try_from_json_at(.., {off}) reports offset {}", stringify!($ty), e.offset), None);
								} else {
									fam.nontrivial()
								}
							}
							_ => fam.fail(json!({"doc": d, "type": stringify!($ty), "offset": off}), format!("{}::try_from_json_at on {d}: unexpected success/failure", stringify!($ty)), None),
						}
					}};
				}
				leaf!((), v.is_null());
				leaf!(bool, v.is_boolean());
				leaf!(String, v.is_string());
				leaf!(Option<bool>, v.is_null() || v.is_boolean());
				leaf!(Box<String>, v.is_string());
				let num_ok = |lo: f64, hi: f64, int: bool| match &v {
					Value::Number(nb) => {
						let f: f64 = nb.as_str().parse().unwrap();
						f >= lo && f <= hi && (!int || !nb.as_str().contains(['.', 'e', 'E']))
					}
					_ => false,
				};
				leaf!(u8, num_ok(0.0, 255.0, true));
				leaf!(i8, num_ok(-128.0, 127.0, true));
				leaf!(u16, num_ok(0.0, 65535.0, true));
				leaf!(i16, num_ok(-32768.0, 32767.0, true));
				leaf!(u32, num_ok(0.0, 4e9, true));
				leaf!(i32, num_ok(-2e9, 2e9, true));
				leaf!(u64, num_ok(0.0, 1e19, true));
				leaf!(i64, num_ok(-9e18, 9e18, true));
				leaf!(usize, num_ok(0.0, 1e19, true));
				leaf!(isize, num_ok(-9e18, 9e18, true));
				leaf!(f32, v.is_number());
				leaf!(f64, v.is_number());
			}
		}
		fam.sample(|| json!({"doc": "[1]", "type": "bool", "offset": 3, "expected": "Err(Mapped{offset:3, found: array})"}));
		ctx.add(fam);
	}
	ctx.assume("fragment indices are those of the reference pre-order fragment table (one entry per value, entry and key)");
}

pub fn replay(family: &str, case: &J) -> Result<(), String> {
	if family == "T_conversions" {
		let shape: Shape = serde_json::from_value(case["shape"].clone()).map_err(|e| format!("UNSUPPORTED: bad shape encoding: {e}"))?;
		let ch: Vec<u8> = case["choices"].as_array().ok_or("bad case")?.iter().map(|x| x.as_u64().unwrap() as u8).collect();
		return conversion_property(&shape, &ch, case["target"].as_u64().unwrap() as u16, case["wrong"].as_u64().unwrap() as u8).map(|_| ());
	}
	if family == "T_builtin_leaves" {
		return Err("UNSUPPORTED: the built-in leaf family is a fixed exhaustive table; re-run the check".into());
	}
	let input = dec_bytes(case);
	let text = String::from_utf8(input).map_err(|e| e.to_string())?;
	property(&text).map(|_| ())
}
