//! C16 — serde: typed data round-trips through Value and agrees with serde_json.
use crate::framework::{run_proptest, Ctx, Fam, Outcome};
use crate::gen;
use json_syntax::{Parse, Value};
use proptest::prelude::*;
use serde::{de::DeserializeOwned, Deserialize, Serialize};
use serde_json::{json, Value as J};
use std::collections::BTreeMap;

// ---------------------------------------------------------------------------
// floats compared by bits (a negative zero may come back positive)

#[derive(Serialize, Deserialize, Clone, Copy, Debug)]
#[serde(transparent)]
pub struct F64(pub f64);
impl PartialEq for F64 {
	fn eq(&self, o: &Self) -> bool {
		self.0.to_bits() == o.0.to_bits() || (self.0 == 0.0 && o.0 == 0.0)
	}
}

#[derive(Serialize, Deserialize, Clone, Copy, Debug)]
#[serde(transparent)]
pub struct F32(pub f32);
impl PartialEq for F32 {
	fn eq(&self, o: &Self) -> bool {
		self.0.to_bits() == o.0.to_bits() || (self.0 == 0.0 && o.0 == 0.0)
	}
}

// ---------------------------------------------------------------------------
// the family of types

#[derive(Serialize, Deserialize, Clone, Debug, PartialEq)]
pub struct UnitStruct;

#[derive(Serialize, Deserialize, Clone, Debug, PartialEq)]
pub struct Newtype(pub i64);

#[derive(Serialize, Deserialize, Clone, Debug, PartialEq)]
pub struct TupleStruct(pub u8, pub String, pub F64);

#[derive(Serialize, Deserialize, Clone, Debug, PartialEq)]
pub struct Ints {
	pub a: i8,
	pub b: i16,
	pub c: i32,
	pub d: i64,
	pub e: u8,
	pub f: u16,
	pub g: u32,
	pub h: u64,
}

#[derive(Serialize, Deserialize, Clone, Copy, Debug, PartialEq, Eq, PartialOrd, Ord)]
pub enum UnitOnly {
	Alpha,
	Beta,
	#[allow(non_camel_case_types)]
	gamma_delta,
}

#[derive(Serialize, Deserialize, Clone, Debug, PartialEq, Eq, PartialOrd, Ord)]
pub struct KeyNewtype(pub String);

#[derive(Serialize, Deserialize, Clone, Debug, PartialEq, Eq, PartialOrd, Ord)]
pub struct KeyNewtypeInt(pub u32);

#[derive(Serialize, Deserialize, Clone, Debug, PartialEq)]
pub enum E {
	Unit,
	Newtype(String),
	NewtypeNum(u64),
	NewtypeOpt(Option<i8>),
	NewtypeSeq(Vec<bool>),
	Tuple(i16, F32),
	Tuple3(u8, String, Option<bool>),
	Struct { a: bool, b: Option<char> },
	EmptyStruct {},
	Nested(Box<E>),
	StructNested { inner: Vec<E> },
}

#[derive(Serialize, Deserialize, Clone, Debug, PartialEq)]
pub struct Maps {
	pub by_string: BTreeMap<String, E>,
	pub by_i64: BTreeMap<i64, u8>,
	pub by_i8: BTreeMap<i8, bool>,
	pub by_u8: BTreeMap<u8, String>,
	pub by_u64: BTreeMap<u64, ()>,
	pub by_char: BTreeMap<char, bool>,
	pub by_unit_variant: BTreeMap<UnitOnly, i32>,
	pub by_newtype: BTreeMap<KeyNewtype, u8>,
	pub by_newtype_int: BTreeMap<KeyNewtypeInt, Vec<u8>>,
}

#[derive(Serialize, Deserialize, Clone, Debug, PartialEq)]
pub struct Root {
	pub unit: (),
	pub unit_struct: UnitStruct,
	pub newtype: Newtype,
	pub tuple_struct: TupleStruct,
	pub ints: Ints,
	pub f32s: Vec<F32>,
	pub f64s: Vec<F64>,
	pub c: char,
	pub s: String,
	pub opt: Option<Ints>,
	pub opt_str: Option<String>,
	pub boxed: Option<Box<Root>>,
	pub enums: Vec<E>,
	pub pair: (bool, String),
	pub triple: (u8, i8, char),
	pub nested_seq: Vec<Vec<i32>>,
	pub maps: Maps,
	pub unit_variant: UnitOnly,
}

// ---------------------------------------------------------------------------
// strategies

fn edge<T: Copy + std::fmt::Debug + 'static>(any: BoxedStrategy<T>, edges: Vec<T>) -> BoxedStrategy<T> {
	prop_oneof![3 => any, 2 => prop::sample::select(edges)].boxed()
}

fn arb_f64() -> BoxedStrategy<F64> {
	prop_oneof![
		6 => any::<u64>().prop_map(|b| F64(f64::from_bits(b))),
		2 => prop::sample::select(vec![0.0, -0.0, 1.0, -1.5, 0.1, 1e21, 1e-7, 5e-324, f64::MIN_POSITIVE, f64::MAX, f64::MIN, 9007199254740993.0, 1e300, 123456.789, f64::NAN, f64::INFINITY, f64::NEG_INFINITY]).prop_map(F64),
		2 => (any::<i32>(), 0u32..8).prop_map(|(i, d)| F64(i as f64 / 10f64.powi(d as i32))),
	]
	.boxed()
}

fn arb_f32() -> BoxedStrategy<F32> {
	prop_oneof![
		6 => any::<u32>().prop_map(|b| F32(f32::from_bits(b))),
		2 => prop::sample::select(vec![0.0f32, -0.0, 1.0, -1.5, 0.1, 1e21, 1e-7, 1e-45, f32::MIN_POSITIVE, f32::MAX, f32::MIN, 16777217.0, f32::NAN, f32::INFINITY]).prop_map(F32),
		2 => (any::<i16>(), 0u32..5).prop_map(|(i, d)| F32(i as f32 / 10f32.powi(d as i32))),
	]
	.boxed()
}

fn arb_ints() -> BoxedStrategy<Ints> {
	(
		edge(any::<i8>().boxed(), vec![i8::MIN, i8::MAX, 0, -1]),
		edge(any::<i16>().boxed(), vec![i16::MIN, i16::MAX, 0]),
		edge(any::<i32>().boxed(), vec![i32::MIN, i32::MAX, 0]),
		edge(any::<i64>().boxed(), vec![i64::MIN, i64::MAX, 0, -1, 1 << 53]),
		edge(any::<u8>().boxed(), vec![0, u8::MAX]),
		edge(any::<u16>().boxed(), vec![0, u16::MAX]),
		edge(any::<u32>().boxed(), vec![0, u32::MAX]),
		edge(any::<u64>().boxed(), vec![0, u64::MAX, i64::MAX as u64, i64::MAX as u64 + 1]),
	)
		.prop_map(|(a, b, c, d, e, f, g, h)| Ints { a, b, c, d, e, f, g, h })
		.boxed()
}

fn arb_char() -> BoxedStrategy<char> {
	gen::arb_char()
}

fn arb_str() -> BoxedStrategy<String> {
	prop_oneof![4 => gen::arb_string(), 1 => Just("$serde_json::private::Number".to_string()), 1 => prop::sample::select(vec!["Unit", "Alpha", "0", "-1", "null", ""]).prop_map(|s| s.to_string())].boxed()
}

fn arb_unit_only() -> BoxedStrategy<UnitOnly> {
	prop::sample::select(vec![UnitOnly::Alpha, UnitOnly::Beta, UnitOnly::gamma_delta]).boxed()
}

fn arb_e() -> BoxedStrategy<E> {
	let leaf = prop_oneof![
		Just(E::Unit),
		arb_str().prop_map(E::Newtype),
		edge(any::<u64>().boxed(), vec![0, u64::MAX]).prop_map(E::NewtypeNum),
		proptest::option::of(any::<i8>()).prop_map(E::NewtypeOpt),
		proptest::collection::vec(any::<bool>(), 0..4).prop_map(E::NewtypeSeq),
		(any::<i16>(), arb_f32()).prop_map(|(a, b)| E::Tuple(a, b)),
		(any::<u8>(), arb_str(), proptest::option::of(any::<bool>())).prop_map(|(a, b, c)| E::Tuple3(a, b, c)),
		(any::<bool>(), proptest::option::of(arb_char())).prop_map(|(a, b)| E::Struct { a, b }),
		Just(E::EmptyStruct {}),
	];
	leaf.prop_recursive(3, 12, 3, |inner| {
		prop_oneof![
			inner.clone().prop_map(|e| E::Nested(Box::new(e))),
			proptest::collection::vec(inner, 0..3).prop_map(|v| E::StructNested { inner: v }),
		]
	})
	.boxed()
}

fn arb_maps() -> BoxedStrategy<Maps> {
	use proptest::collection::btree_map;
	(
		prop_oneof![6 => btree_map(arb_str(), arb_e(), 0..4), 1 => btree_map(gen::arb_long_key(), arb_e(), 9..40)],
		prop_oneof![6 => btree_map(edge(any::<i64>().boxed(), vec![i64::MIN, i64::MAX, 0, -1]), any::<u8>(), 0..4), 1 => btree_map(any::<i64>(), any::<u8>(), 9..40)],
		btree_map(any::<i8>(), any::<bool>(), 0..4),
		btree_map(any::<u8>(), arb_str(), 0..3),
		btree_map(edge(any::<u64>().boxed(), vec![u64::MAX, 0]), Just(()), 0..3),
		btree_map(arb_char(), any::<bool>(), 0..4),
		btree_map(arb_unit_only(), any::<i32>(), 0..3),
		btree_map(arb_str().prop_map(KeyNewtype), any::<u8>(), 0..3),
		btree_map(any::<u32>().prop_map(KeyNewtypeInt), proptest::collection::vec(any::<u8>(), 0..3), 0..3),
	)
		.prop_map(|(by_string, by_i64, by_i8, by_u8, by_u64, by_char, by_unit_variant, by_newtype, by_newtype_int)| Maps { by_string, by_i64, by_i8, by_u8, by_u64, by_char, by_unit_variant, by_newtype, by_newtype_int })
		.boxed()
}

fn arb_root(depth: u32) -> BoxedStrategy<Root> {
	let boxed: BoxedStrategy<Option<Box<Root>>> = if depth == 0 { Just(None).boxed() } else { prop_oneof![3 => Just(None), 1 => arb_root(depth - 1).prop_map(|r| Some(Box::new(r)))].boxed() };
	(
		(edge(any::<i64>().boxed(), vec![i64::MIN, i64::MAX]).prop_map(Newtype), (any::<u8>(), arb_str(), arb_f64()).prop_map(|(a, b, c)| TupleStruct(a, b, c)), arb_ints()),
		(proptest::collection::vec(arb_f32(), 0..4), prop_oneof![6 => proptest::collection::vec(arb_f64(), 0..5), 1 => proptest::collection::vec(arb_f64(), 20..300)], arb_char(), prop_oneof![6 => arb_str(), 1 => proptest::collection::vec(gen::arb_char(), 40..200).prop_map(|v| v.into_iter().collect::<String>())]),
		(proptest::option::of(arb_ints()), proptest::option::of(arb_str()), boxed, proptest::collection::vec(arb_e(), 0..4)),
		((any::<bool>(), arb_str()), (any::<u8>(), any::<i8>(), arb_char()), prop_oneof![8 => proptest::collection::vec(proptest::collection::vec(any::<i32>(), 0..3), 0..3), 1 => proptest::collection::vec(proptest::collection::vec(any::<i32>(), 0..100), 60..140)], arb_maps(), arb_unit_only()),
	)
		.prop_map(|((newtype, tuple_struct, ints), (f32s, f64s, c, s), (opt, opt_str, boxed, enums), (pair, triple, nested_seq, maps, unit_variant))| Root {
			unit: (),
			unit_struct: UnitStruct,
			newtype,
			tuple_struct,
			ints,
			f32s,
			f64s,
			c,
			s,
			opt,
			opt_str,
			boxed,
			enums,
			pair,
			triple,
			nested_seq,
			maps,
			unit_variant,
		})
		.boxed()
}

// ---------------------------------------------------------------------------
// oracles

fn non_finite_root(r: &Root) -> bool {
	fn e_nf(e: &E) -> bool {
		match e {
			E::Tuple(_, f) => !f.0.is_finite(),
			E::Nested(b) => e_nf(b),
			E::StructNested { inner } => inner.iter().any(e_nf),
			_ => false,
		}
	}
	!r.tuple_struct.2 .0.is_finite()
		|| r.f32s.iter().any(|f| !f.0.is_finite())
		|| r.f64s.iter().any(|f| !f.0.is_finite())
		|| r.enums.iter().any(e_nf)
		|| r.maps.by_string.values().any(e_nf)
		|| r.boxed.as_ref().map(|b| non_finite_root(b)).unwrap_or(false)
}

/// Shape comparison of json-syntax's rendering with serde_json's.
pub fn same_shape(a: &Value, b: &J, path: &str) -> Result<(), String> {
	match (a, b) {
		(Value::Null, J::Null) => Ok(()),
		(Value::Boolean(x), J::Bool(y)) if x == y => Ok(()),
		(Value::String(x), J::String(y)) if x.as_str() == y => Ok(()),
		(Value::Number(n), J::Number(m)) => {
			let s = n.as_str();
			if m.is_u64() || m.is_i64() {
				if s == m.to_string() {
					Ok(())
				} else {
					Err(format!("{path}: integer {s} vs serde_json's {m}"))
				}
			} else {
				let x: f64 = s.parse().unwrap();
				let y = m.as_f64().unwrap();
				if x == y || (x as f32) == (y as f32) {
					Ok(())
				} else {
					Err(format!("{path}: float {s} vs serde_json's {m}"))
				}
			}
		}
		(Value::Array(x), J::Array(y)) => {
			if x.len() != y.len() {
				return Err(format!("{path}: array lengths {} vs {}", x.len(), y.len()));
			}
			for (i, (p, q)) in x.iter().zip(y).enumerate() {
				same_shape(p, q, &format!("{path}[{i}]"))?;
			}
			Ok(())
		}
		(Value::Object(x), J::Object(y)) => {
			let mut keys: Vec<&str> = x.iter().map(|e| e.key.as_str()).collect();
			keys.sort();
			if keys.windows(2).any(|w| w[0] == w[1]) {
				return Err(format!("{path}: duplicate key in json-syntax's rendering"));
			}
			let mut ykeys: Vec<&str> = y.keys().map(|k| k.as_str()).collect();
			ykeys.sort();
			if keys != ykeys {
				return Err(format!("{path}: keys {keys:?} vs serde_json's {ykeys:?}"));
			}
			for e in x.iter() {
				same_shape(&e.value, &y[e.key.as_str()], &format!("{path}.{}", e.key))?;
			}
			Ok(())
		}
		_ => Err(format!("{path}: kinds differ: {:?} vs serde_json's {}", a.kind(), b)),
	}
}

pub fn datum_property<T: Serialize + DeserializeOwned + PartialEq + std::fmt::Debug>(x: &T, has_non_finite: bool) -> Result<(), String> {
	let v = json_syntax::to_value(x).map_err(|e| format!("to_value failed: {e}"))?;
	let sj = serde_json::to_value(x).map_err(|e| format!("harness: serde_json::to_value failed: {e}"))?;
	same_shape(&v, &sj, "$")?;
	if has_non_finite {
		return Ok(());
	}
	let back: T = json_syntax::from_value(v.clone()).map_err(|e| format!("from_value(to_value(x)) failed: {e}; rendering = {v}"))?;
	if &back != x {
		return Err(format!("from_value(to_value(x)) != x:\n x    = {x:?}\n back = {back:?}"));
	}
	// via serde_json's Value
	let via: T = json_syntax::from_value(Value::from_serde_json(sj)).map_err(|e| format!("from_value(from_serde_json(serde_json::to_value(x))) failed: {e}"))?;
	if &via != x {
		return Err(format!("deserializing serde_json's rendering (as Value) gives a different datum:\n x   = {x:?}\n got = {via:?}"));
	}
	// via serde_json's text
	let text = serde_json::to_string(x).map_err(|e| format!("harness: serde_json::to_string failed: {e}"))?;
	let (parsed, _) = Value::parse_str(&text).map_err(|e| format!("parse_str rejected serde_json's text {text:?}: {e:?}"))?;
	let via_text: T = json_syntax::from_value(parsed).map_err(|e| format!("from_value(parse(serde_json::to_string(x))) failed: {e}; text = {text}"))?;
	if &via_text != x {
		return Err(format!("deserializing serde_json's text gives a different datum:\n x   = {x:?}\n got = {via_text:?}"));
	}
	Ok(())
}

pub fn run(ctx: &mut Ctx) {
	if ctx.wants("T_typed_instances") {
		let n = ctx.pick(120_000, 600_000);
		let fam = Fam::new("T_typed_instances", "proptest: instances of a derive-annotated family (named/tuple/newtype/unit structs; enum with unit, newtype, tuple, struct, empty-struct and recursive variants; Option, Box recursion, tuples, Vec, BTreeMap keyed by String, i64, i8, u8, u64, char, unit-variant enum, newtype(String), newtype(u32); all integer widths at their bounds; f32/f64 from random bit patterns; arbitrary Unicode): (1) from_value(to_value(x)) == x with floats by bits, (2) to_value(x) has serde_json::to_value(x)'s shape (non-finite => null on both sides), (3) deserializing serde_json's rendering (as Value and as text) gives x; non-trivial = contains an enum variant with payload, a non-string map key or a float", false);
		let fam = run_proptest(
			ctx,
			fam,
			n,
			|| arb_root(2),
			|r| {
				let nf = non_finite_root(r);
				match datum_property(r, nf) {
					Ok(()) => {
						let payload = r.enums.iter().any(|e| !matches!(e, E::Unit)) || !r.maps.by_string.is_empty();
						let nonstring_key = !r.maps.by_i64.is_empty() || !r.maps.by_char.is_empty() || !r.maps.by_unit_variant.is_empty() || !r.maps.by_newtype_int.is_empty() || !r.maps.by_u64.is_empty();
						let floats = !r.f64s.is_empty() || !r.f32s.is_empty();
						let mut classes = vec![];
						if nf {
							classes.push("contains_non_finite_float(round trip skipped)");
						}
						if payload {
							classes.push("enum_with_payload");
						}
						if nonstring_key {
							classes.push("non_string_map_key");
						}
						if r.boxed.is_some() {
							classes.push("recursive");
						}
						Outcome::ok(payload || nonstring_key || floats, classes)
					}
					Err(m) => Outcome::fail(m),
				}
			},
			|r| json!({"debug": format!("{r:?}"), "serde_json": serde_json::to_value(r).unwrap_or(J::Null)}),
		);
		ctx.add(fam);
	}
	if ctx.wants("F_isolated_floats") {
		let n = ctx.pick(2_000_000, 50_000_000);
		let fam = Fam::new("F_isolated_floats", "proptest: one f64 and one f32 from random bit patterns (plus edge values) per case: finite => to_value/from_value round-trips bit-exactly (-0 may become +0) also inside Vec and as newtype-variant payload; non-finite => null; non-trivial = finite and not an integer", false);
		let fam = run_proptest(
			ctx,
			fam,
			n,
			|| (arb_f64(), arb_f32()),
			|(a, b)| {
				for (name, res) in [("f64", datum_property(a, !a.0.is_finite())), ("f32", datum_property(b, !b.0.is_finite())), ("(F64, F32) tuple", datum_property(&(*a, *b), !a.0.is_finite() || !b.0.is_finite()))] {
					if let Err(m) = res {
						return Outcome::fail(format!("{name}: {m}"));
					}
				}
				if !a.0.is_finite() {
					let v = json_syntax::to_value(a).unwrap();
					if !v.is_null() {
						return Outcome::fail(format!("non-finite f64 {:?} serialized as {v}, expected null", a.0));
					}
				}
				if !b.0.is_finite() {
					let v = json_syntax::to_value(b).unwrap();
					if !v.is_null() {
						return Outcome::fail(format!("non-finite f32 {:?} serialized as {v}, expected null", b.0));
					}
				}
				let nt = a.0.is_finite() && a.0.fract() != 0.0;
				Outcome::ok(nt, vec![if a.0.is_finite() { "f64_finite" } else { "f64_non_finite" }, if a.0 != 0.0 && a.0.abs() < f64::MIN_POSITIVE { "f64_subnormal" } else { "f64_normal_or_zero" }])
			},
			|(a, b)| json!({"f64_bits": a.0.to_bits(), "f32_bits": b.0.to_bits()}),
		);
		ctx.add(fam);
	}
	if ctx.wants("S_small_types") {
		let n = ctx.pick(100_000, 1_000_000);
		let fam = Fam::new("S_small_types", "proptest: the component types on their own at the root (Ints, E, Maps, UnitOnly, tuples, Option, Vec<Vec<i32>>, char, String, unit, unit struct): same three oracles; non-trivial = enum with payload or non-empty map", false);
		let fam = run_proptest(
			ctx,
			fam,
			n,
			|| (arb_ints(), arb_e(), arb_maps(), (arb_unit_only(), arb_char(), arb_str()), proptest::option::of(arb_str())),
			|(i, e, m, (u, c, s), o)| {
				macro_rules! chk {
					($x:expr, $name:literal) => {
						if let Err(msg) = datum_property($x, false) {
							return Outcome::fail(format!("{}: {msg}", $name));
						}
					};
				}
				chk!(i, "Ints");
				chk!(u, "UnitOnly");
				chk!(c, "char");
				chk!(s, "String");
				chk!(o, "Option<String>");
				chk!(&(), "unit");
				chk!(&UnitStruct, "unit struct");
				chk!(&(i.a, s.clone(), *c), "tuple");
				chk!(&vec![vec![i.c], vec![], vec![i.c, 0]], "Vec<Vec<i32>>");
				let has_nf = {
					fn e_nf(e: &E) -> bool {
						match e {
							E::Tuple(_, f) => !f.0.is_finite(),
							E::Nested(b) => e_nf(b),
							E::StructNested { inner } => inner.iter().any(e_nf),
							_ => false,
						}
					}
					(e_nf(e), m.by_string.values().any(e_nf))
				};
				if let Err(msg) = datum_property(e, has_nf.0) {
					return Outcome::fail(format!("E: {msg}"));
				}
				if let Err(msg) = datum_property(m, has_nf.1) {
					return Outcome::fail(format!("Maps: {msg}"));
				}
				Outcome::ok(!matches!(e, E::Unit) || !m.by_i64.is_empty(), vec![])
			},
			|(i, e, m, t, o)| json!({"debug": format!("{:?}", (i, e, m, t, o))}),
		);
		ctx.add(fam);
	}
	ctx.assume("excluded with reason: Option<Option<_>> / Option<()> (not representable in JSON by any implementation), zero-field tuple variants (rejected identically by serde_json::from_value), i128/u128, bool/float map keys, serde container attributes (flatten, tagging)");
	ctx.assume("serde_json is used as the reference the property names; floats are compared as f64 or after rounding to f32 (serde_json widens f32 to f64)");
}

pub fn replay(family: &str, case: &J) -> Result<(), String> {
	match family {
		"T_typed_instances" => {
			// the instance is rebuilt from serde_json's rendering (possible when it holds no non-finite float)
			let r: Root = serde_json::from_value(case["serde_json"].clone()).map_err(|e| format!("UNSUPPORTED: the recorded rendering does not deserialize back ({e}); see the Debug text"))?;
			datum_property(&r, non_finite_root(&r))
		}
		"F_isolated_floats" => {
			let a = F64(f64::from_bits(case["f64_bits"].as_u64().ok_or("bad case")?));
			let b = F32(f32::from_bits(case["f32_bits"].as_u64().ok_or("bad case")? as u32));
			datum_property(&a, !a.0.is_finite())?;
			datum_property(&b, !b.0.is_finite())?;
			datum_property(&(a, b), !a.0.is_finite() || !b.0.is_finite())
		}
		_ => Err("UNSUPPORTED: component-type cases are recorded as Debug text; re-run the family with the same VERIF_SEED".into()),
	}
}
