pub mod c01;
pub mod c02;
pub mod c03;
pub mod c04;
pub mod c05;
pub mod c06;
pub mod c07;
pub mod c08;
pub mod c09;
pub mod c10;
pub mod c11;
pub mod c12;
pub mod c13;
pub mod c14;
pub mod c15;
pub mod c16;
pub mod c17;
pub mod c18;
pub mod c19;
pub mod c20;
pub mod printing;

use crate::framework::Ctx;
use serde_json::Value as J;

pub const ALL: &[&str] = &["C01", "C02", "C03", "C04", "C05", "C06", "C07", "C08", "C09", "C10", "C11", "C12", "C13", "C14", "C15", "C16", "C17", "C18", "C19", "C20"];

/// Replay tier: every saved minimal failing case of this property under /verif/regress (shrunk failures of
/// the repaired defects, of the seeded changes and of the mutants) is replayed deterministically, without
/// any generator, before the generative families run.
fn regress(ctx: &mut Ctx) {
	if !ctx.wants("R_regression_replays") {
		return;
	}
	let dir = crate::framework::verif_dir().join("regress");
	let mut files: Vec<std::path::PathBuf> = match std::fs::read_dir(&dir) {
		Ok(rd) => rd.filter_map(|e| e.ok()).map(|e| e.path()).filter(|p| p.file_name().and_then(|n| n.to_str()).map(|n| n.starts_with(ctx.prop) && n.ends_with(".json")).unwrap_or(false)).collect(),
		Err(_) => return,
	};
	if files.is_empty() {
		return;
	}
	files.sort();
	ctx.begin_family("R_regression_replays");
	let mut fam = crate::framework::Fam::new("R_regression_replays", &format!("deterministic replay of the {} saved minimal failing cases of this property (regress/{}-*.json: shrunk counterexamples of the repaired defects, of the seeded changes and of the mutants), each through the same oracle as the family that found it; every case is non-trivial by construction (it failed on some variant of the code)", files.len(), ctx.prop), true);
	for f in &files {
		let j = crate::framework::read_replay(f);
		let family = j["family"].as_str().unwrap_or("").to_string();
		let name = f.file_name().unwrap().to_string_lossy().to_string();
		let wrapped = serde_json::json!({"family": family, "case": j["case"], "file": name, "origin": j["origin"]});
		fam.tick();
		let prop = ctx.prop;
		match crate::framework::guarded(|| replay(prop, &family, &j["case"])) {
			Ok(Ok(())) => {
				fam.nontrivial();
				fam.class(j["origin"].as_str().map(|o| o.split(':').next().unwrap_or("other").to_string()).unwrap_or_else(|| "other".into()).as_str());
			}
			Ok(Err(m)) if m.starts_with("UNSUPPORTED") => fam.class("unsupported_by_replay"),
			Ok(Err(m)) | Err(m) => fam.fail(wrapped, format!("saved case {name}: {m}"), None),
		}
	}
	if let Some(f) = files.first() {
		let j = crate::framework::read_replay(f);
		fam.sample(|| serde_json::json!({"file": f.file_name().unwrap().to_string_lossy(), "family": j["family"], "origin": j["origin"]}));
	}
	ctx.add(fam);
}

pub fn run(ctx: &mut Ctx) {
	regress(ctx);
	match ctx.prop {
		"C01" => c01::run(ctx),
		"C02" => c02::run(ctx),
		"C03" => c03::run(ctx),
		"C04" => c04::run(ctx),
		"C08" => c08::run(ctx),
		"C09" => c09::run(ctx),
		"C10" => c10::run(ctx),
		"C13" => c13::run(ctx),
		"C14" => c14::run(ctx),
		"C15" => c15::run(ctx),
		"C16" => c16::run(ctx),
		"C17" => c17::run(ctx),
		"C18" => c18::run(ctx),
		"C19" => c19::run(ctx),
		"C20" => c20::run(ctx),
		"C05" => c05::run(ctx),
		"C06" => c06::run(ctx),
		"C07" => c07::run(ctx),
		"C11" => c11::run(ctx),
		"C12" => c12::run(ctx),
		p => panic!("unknown property {p}"),
	}
}

pub fn replay(prop: &str, family: &str, case: &J) -> Result<(), String> {
	if let Some(target) = family.strip_prefix("fuzz:") {
		std::env::set_var("JSV_FUZZ_PROP", prop);
		let bytes = crate::framework::dec_bytes(case);
		return crate::fuzzglue::run_target(target, &bytes).map(|_| ());
	}
	if family == "R_regression_replays" {
		return replay(prop, case["family"].as_str().unwrap_or(""), &case["case"]);
	}
	match prop {
		"C01" => c01::replay(family, case),
		"C02" => c02::replay(family, case),
		"C03" => c03::replay(family, case),
		"C04" => c04::replay(family, case),
		"C08" => c08::replay(family, case),
		"C09" => c09::replay(family, case),
		"C10" => c10::replay(family, case),
		"C13" => c13::replay(family, case),
		"C14" => c14::replay(family, case),
		"C15" => c15::replay(family, case),
		"C16" => c16::replay(family, case),
		"C17" => c17::replay(family, case),
		"C18" => c18::replay(family, case),
		"C19" => c19::replay(family, case),
		"C20" => c20::replay(family, case),
		"C05" => c05::replay(family, case),
		"C06" => c06::replay(family, case),
		"C07" => c07::replay(family, case),
		"C11" => c11::replay(family, case),
		"C12" => c12::replay(family, case),
		p => Err(format!("unknown property {p}")),
	}
}

pub fn intern(prop: &str) -> Option<&'static str> {
	ALL.iter().copied().find(|p| *p == prop)
}

/// `jsv child ...`: sub-process entry used by C03 (deep nesting in a small stack).
pub fn child_main(args: &[String]) -> i32 {
	match args.first().map(|s| s.as_str()) {
		Some("deep") => c03::child_deep(&args[1..]),
		_ => 2,
	}
}

/// I-JSON value strategy shared by C09 and C10.
pub fn c09_value() -> proptest::strategy::BoxedStrategy<crate::refvalue::RefValue> {
	c09::ijson_value(40)
}
