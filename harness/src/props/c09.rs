//! C09 — canonicalization conforms to RFC 8785 (JSON Canonicalization Scheme).
use crate::framework::{run_proptest, Ctx, Fam, Outcome};
use crate::gen;
use crate::refcanon::{self, Dec};
use crate::refvalue::RefValue;
use json_syntax::{Print, Value};
use proptest::prelude::*;
use serde_json::{json, Value as J};

// ---------------------------------------------------------------------------
// number generators (all inside the double range by construction)

fn digits_strategy(min: usize, max: usize) -> BoxedStrategy<String> {
	proptest::collection::vec(0u8..10, min..=max).prop_map(|d| d.into_iter().map(|x| (b'0' + x) as char).collect()).boxed()
}

/// Random significant digits with a decimal point/exponent such that the magnitude stays within 1e-340..1e300.
fn arb_scaled(max_digits: usize) -> BoxedStrategy<String> {
	((1u8..10), digits_strategy(0, max_digits - 1), -340i64..300, 0u8..4, any::<bool>())
		.prop_map(|(first, rest, mag, style, neg)| {
			// value = 0.d1d2... x 10^mag, spelled in one of several ways
			let ds = format!("{}{}", (b'0' + first) as char, rest);
			let k = ds.len() as i64;
			let body = match style {
				// d.ddd e(mag-1)
				0 => {
					if k == 1 {
						format!("{ds}e{}", mag - 1)
					} else {
						format!("{}.{}e{}", &ds[..1], &ds[1..], mag - 1)
					}
				}
				// integer with exponent
				1 => format!("{ds}E{}", mag - k),
				// plain decimal when reasonably sized
				2 if (-30..=40).contains(&mag) => Dec { digits: ds.bytes().map(|b| b - b'0').collect(), exp: mag - k }.to_plain_unnormalized(),
				_ => format!("0.{ds}e+{}", mag).replace("e+-", "e-"),
			};
			if neg {
				format!("-{body}")
			} else {
				body
			}
		})
		.boxed()
}

trait PlainUnnormalized {
	fn to_plain_unnormalized(&self) -> String;
}
impl PlainUnnormalized for Dec {
	fn to_plain_unnormalized(&self) -> String {
		let ds: String = self.digits.iter().map(|d| (b'0' + d) as char).collect();
		if self.exp >= 0 {
			format!("{ds}{}", "0".repeat(self.exp as usize))
		} else {
			let point = ds.len() as i64 + self.exp;
			if point > 0 {
				format!("{}.{}", &ds[..point as usize], &ds[point as usize..])
			} else {
				format!("0.{}{}", "0".repeat((-point) as usize), ds)
			}
		}
	}
}

/// Decimals at or next to the exact midpoint of two adjacent doubles.
fn arb_near_halfway() -> BoxedStrategy<String> {
	(any::<u64>(), 0u8..3, any::<bool>(), 0u8..3)
		.prop_map(|(bits, which, neg, style)| {
			// a finite positive double that has a finite successor
			let exp = (bits >> 52) & 0x7ff;
			let exp = if exp >= 0x7fe { 0x7fd } else { exp };
			let f = f64::from_bits((bits & 0x000f_ffff_ffff_ffff) | (exp << 52));
			let g = f64::from_bits(f.to_bits() + 1);
			let mid = Dec::from_f64(f).add(&Dec::from_f64(g)).half();
			let mut ds = mid.digits.clone();
			let mut e = mid.exp;
			match which {
				0 => {}
				1 => {
					// slightly above: append a digit
					ds.push(1);
					e -= 1;
				}
				_ => {
					// slightly below: ...d -> ...(d-1)9 with one more digit (mid has a non-zero last digit)
					let last = ds.len() - 1;
					ds[last] -= 1;
					ds.push(9);
					e -= 1;
				}
			}
			let d = Dec { digits: ds, exp: e };
			let body = match style {
				0 => d.to_sci(),
				1 => {
					let ds: String = d.digits.iter().map(|x| (b'0' + x) as char).collect();
					format!("{ds}E{}", d.exp)
				}
				_ => {
					if (-60..=60).contains(&(d.exp + d.digits.len() as i64)) {
						d.to_plain_unnormalized()
					} else {
						d.to_sci()
					}
				}
			};
			if neg {
				format!("-{body}")
			} else {
				body
			}
		})
		.boxed()
}

fn arb_special_number() -> BoxedStrategy<String> {
	let list: Vec<&'static str> = vec![
		"0", "-0", "0.0", "-0.0", "0e9", "0E-9", "1", "-1", "10", "100", "1e21", "1E21", "999999999999999900000", "999999999999999999999", "1000000000000000000000", "123456789012345680000",
		"1e-6", "1e-7", "0.000001", "0.0000001", "0.00000099999999999999995", "9.999999999999997e-7", "1e23", "9.999999999999999e22", "5e-324", "4.9e-324", "2.5e-324", "2.4703282292062328e-324", "2.47e-324", "1e-400",
		"1.7976931348623157e308", "1.7976931348623158e308", "179769313486231570000000000000000000000000000000000000000000000000000000000000000000000000000000000000000000000000000000000000000000000000000000000000000000000000000000000000000000000000000000000000000000000000000000000000000000000000000000000000000000000000000000000000000000000000000000000",
		"9007199254740992", "9007199254740993", "9007199254740991", "-9007199254740993", "18446744073709551615", "18446744073709551616", "18446744073709551617", "9223372036854775807", "9223372036854775808", "-9223372036854775809",
		"4.5", "4.50", "0.002", "2e-3", "333333333.33333329", "1E30", "0.1", "0.30000000000000004", "1.0000000000000002", "1.00000000000000011102230246251565404236316680908203125", "1.00000000000000011102230246251565404236316680908203126",
		"2.2250738585072014e-308", "2.2250738585072011e-308", "2.225073858507201136057409796709131975934819546351645648023426109724822222021076945516529523908135087914149158913039621106870086438694594645527657207407820621743379988141063267329253552286881372149012981122451451889849057222307285255133155755015914397476397983411801999323962548289017107081850690630666655994938275772572015763062690663332647565300009245888316433037779791869612049497390377829704905051080609940730262937128958950003583799967207254304360284078895771796150945516748243471030702609144621572289880258182545180325707018860872113128079512233426288368622321503775666622503982534335974568884423900265498198385487948292206894721689831099698365846814022854243330660339850886445804001034933970427567186443383770486037861622771738545623065874679014086723327636718751234567890123456789012345678901e-308",
		"3.9691103336428134379e14", "396911033364281.34379", "0.1000000000000000055511151231257827021181583404541015625", "100000000000000000000000000000000000000000000000000000000000000000000000000000000000000000000000000001e-100",
	];
	prop::sample::select(list).prop_map(|s| s.to_string()).boxed()
}

fn arb_int_boundaries() -> BoxedStrategy<String> {
	(prop::sample::select(vec![1u128 << 53, 1u128 << 63, 1u128 << 64, 1u128 << 52, 10u128.pow(21), 10u128.pow(22), 1u128 << 100]), -40i64..40, any::<bool>())
		.prop_map(|(base, d, neg)| {
			let v = (base as i128 + d as i128) as u128;
			format!("{}{v}", if neg { "-" } else { "" })
		})
		.boxed()
}

fn arb_from_double() -> BoxedStrategy<String> {
	(any::<u64>(), 0u8..3)
		.prop_map(|(bits, style)| {
			let exp = (bits >> 52) & 0x7ff;
			let exp = if exp == 0x7ff { 0x7fe } else { exp };
			let f = f64::from_bits((bits & 0x800f_ffff_ffff_ffff) | (exp << 52));
			match style {
				0 => format!("{:e}", f),
				1 => format!("{:.20e}", f),
				_ => format!("{:.25E}", f),
			}
		})
		.boxed()
}

/// Integer literals at or next to the midpoint of two adjacent doubles (15..24 digits).
fn arb_integer_near_midpoint() -> BoxedStrategy<String> {
	(any::<u64>(), 53u64..80, -12i64..=12, any::<bool>())
		.prop_map(|(m, e, delta, neg)| {
			// a double with integer spacing 2^(e-52) >= 2: f = (2^52 + m52) * 2^(e-52)
			let f = f64::from_bits(((1023 + e) << 52) | (m & 0x000f_ffff_ffff_ffff));
			let g = f64::from_bits(f.to_bits() + 1);
			let mid = Dec::from_f64(f).add(&Dec::from_f64(g)).half();
			// mid is an integer here (spacing >= 2); add a small delta with decimal arithmetic
			let d = Dec::parse(&delta.abs().to_string());
			let v = if delta >= 0 { mid.add(&d) } else { mid.abs_diff(&d) };
			format!("{}{}", if neg { "-" } else { "" }, v.to_plain())
		})
		.boxed()
}

/// A finite double (specials or random bits) spelled exactly - shortest digits, 17 digits or its full
/// decimal expansion - and then respelled exactly in an arbitrary way (point position, exponent, zeros).
pub fn arb_respelled_double() -> BoxedStrategy<String> {
	let special = prop::sample::select(vec![
		f64::MAX, f64::MIN_POSITIVE, 5e-324, 1.0, 0.1, 9007199254740992.0, 9007199254740994.0, 18446744073709551616.0, 9223372036854775808.0, 1e21, 1e22, 1e23, 1e-6, 1e-7, 123456789.0, 0.3, 1.5e300, 2.2250738585072009e-308, 4294967296.0, 1e15, 1e16, 1e17,
	]);
	let f = prop_oneof![3 => special, 2 => any::<u64>().prop_map(|b| {
		let e = (b >> 52) & 0x7ff;
		let e = if e == 0x7ff { 0x7fe } else { e };
		f64::from_bits((b & 0x000f_ffff_ffff_ffff) | (e << 52))
	})];
	(f, 0u8..3, any::<bool>(), proptest::collection::vec(any::<u8>(), 8))
		.prop_map(|(f, style, neg, ch)| {
			let base = match style {
				0 => format!("{:e}", f),
				1 => format!("{:.16e}", f),
				_ => {
					let d = Dec::from_f64(f);
					// the full expansion is at most ~770 digits; keep it only when it is a reasonable literal
					if d.digits.len() <= 400 { d.to_sci() } else { format!("{:e}", f) }
				}
			};
			let s = super::c10::respell(&base, &mut gen::Chooser::new(&ch));
			if neg { format!("-{s}") } else { s }
		})
		.boxed()
}

pub fn arb_ijson_number(max_digits: usize) -> BoxedStrategy<String> {
	prop_oneof![
		2 => arb_respelled_double(),
		2 => arb_integer_near_midpoint(),
		3 => (any::<i32>()).prop_map(|i| i.to_string()),
		3 => arb_scaled(6),
		3 => arb_scaled(20),
		2 => arb_scaled(max_digits),
		3 => arb_near_halfway(),
		3 => arb_special_number(),
		2 => arb_int_boundaries(),
		3 => arb_from_double(),
	]
	.boxed()
}

/// Replaces every number of a generated tree by an I-JSON number (in double range).
pub fn ijson_value(max_digits: usize) -> BoxedStrategy<RefValue> {
	arb_ijson_value(max_digits)
}

fn arb_ijson_value(max_digits: usize) -> BoxedStrategy<RefValue> {
	let leaf = prop_oneof![
		1 => Just(RefValue::Null),
		1 => any::<bool>().prop_map(RefValue::Bool),
		4 => arb_ijson_number(max_digits).prop_map(RefValue::Num),
		3 => gen::arb_string().prop_map(RefValue::Str),
	];
	let tricky_keys = prop::sample::select(vec!["\u{e000}", "\u{ffff}", "\u{10000}", "\u{10ffff}", "a\u{e000}", "a\u{10000}", "\u{d7ff}", "\u{fb33}", "\u{1f600}", "\u{20ac}", "\r", "1", "\u{80}", "\u{f6}", "a", "aa", "", "\u{e000}\u{10000}", "\u{10000}\u{e000}"])
		.prop_map(|s| s.to_string());
	let prefixed2 = (prop::sample::select(vec!["0123456789abcdef", "0123456789abcde", "a-shared-prefix-of-more-than-sixteen-utf16-units:"]), prop::sample::select(vec!["\u{e000}", "\u{ffff}", "\u{10000}", "\u{10ffff}", "\u{1f600}", "z", ""])).prop_map(|(p, t)| format!("{p}{t}"));
	let key = prop_oneof![4 => tricky_keys, 3 => gen::arb_key(false), 2 => prefixed2];
	let prefixed = (prop::sample::select(vec!["", "p", "0123456789abcde", "0123456789abcdef", "http://schema.org/a-long-shared-prefix/", "\u{10000}\u{10000}\u{10000}\u{10000}\u{10000}\u{10000}\u{10000}\u{10000}\u{10000}"]), prop::sample::select(vec!["\u{e000}", "\u{ffff}", "\u{10000}", "\u{10ffff}", "\u{fb33}", "\u{1f600}", "a", "", "\u{e000}x", "\u{10000}x", "\u{d7ff}"]))
		.prop_map(|(p, t)| format!("{p}{t}"));
	let wide_key = prop_oneof![2 => gen::arb_long_key(), 2 => gen::arb_string(), 3 => prefixed.clone(), 1 => (0x1_0000u32..0x1_0400, 0xE000u32..0xE400, any::<bool>()).prop_map(|(a, b, first)| {
		let (a, b) = (char::from_u32(a).unwrap(), char::from_u32(b).unwrap());
		if first { format!("{a}{b}") } else { format!("{b}{a}") }
	})];
	let wide = proptest::collection::vec((wide_key, leaf.clone()), 9..90).prop_map(RefValue::Obj);
	let tree = leaf.prop_recursive(4, 48, 6, move |inner| {
		prop_oneof![
			1 => proptest::collection::vec(inner.clone(), 0..=5).prop_map(RefValue::Arr),
			2 => proptest::collection::vec((key.clone(), inner), 0..=6).prop_map(RefValue::Obj),
		]
	});
	prop_oneof![8 => tree, 1 => wide.clone(), 1 => proptest::collection::vec(wide, 1..4).prop_map(RefValue::Arr)]
		.prop_map(gen::dedup_keys)
		.boxed()
}

// ---------------------------------------------------------------------------

pub fn property(v: &RefValue) -> Result<(), String> {
	let expected = refcanon::canonical(v);
	let mut a = v.to_value();
	a.canonicalize();
	let got = a.compact_print().to_string();
	if got != expected {
		return Err(format!("canonicalize + compact_print = {got:?}, RFC 8785 canonical form = {expected:?}"));
	}
	let mut b = v.to_value_push();
	let mut buffer = ryu_js::Buffer::new();
	b.canonicalize_with(&mut buffer);
	if b != a || b.compact_print().to_string() != expected {
		return Err("canonicalize_with(buffer) disagrees with canonicalize()".into());
	}
	// the same value arriving through every other construction route (push, parsing of the compact and of an
	// escaped rendering, clone, From/FromIterator, Extend, the serde bridges where they are exact copies)
	for route in 1..9u8 {
		let mut c = v.to_value_route(route);
		c.canonicalize();
		let got = c.compact_print().to_string();
		if got != expected {
			return Err(format!("value built through construction route {route}: canonicalize + compact_print = {got:?}, RFC 8785 canonical form = {expected:?}"));
		}
	}
	if let Value::Object(mut o) = v.to_value() {
		o.canonicalize();
		if Value::Object(o.clone()) != a {
			return Err("Object::canonicalize disagrees with Value::canonicalize".into());
		}
		let mut o2 = match v.to_value() {
			Value::Object(o) => o,
			_ => unreachable!(),
		};
		o2.canonicalize_with(&mut buffer);
		if o2 != o {
			return Err("Object::canonicalize_with disagrees with Object::canonicalize".into());
		}
	}
	Ok(())
}

fn sig_digits(n: &str) -> usize {
	let m = n.split(['e', 'E']).next().unwrap();
	let ds: String = m.chars().filter(|c| c.is_ascii_digit()).collect();
	ds.trim_start_matches('0').len()
}

fn classify(v: &RefValue) -> (bool, Vec<&'static str>) {
	let mut classes = vec![];
	let utf16_differs = v.any(&|x| match x {
		RefValue::Obj(o) => {
			let mut a: Vec<&str> = o.iter().map(|(k, _)| k.as_str()).collect();
			let mut b = a.clone();
			a.sort();
			b.sort_by(|x, y| refcanon::utf16_cmp(x, y));
			a != b
		}
		_ => false,
	});
	if utf16_differs {
		classes.push("utf16_order_differs_from_code_point_order");
	}
	let mut nums = vec![];
	v.all_numbers(&mut nums);
	let long = nums.iter().any(|n| sig_digits(n) > 17);
	let expo = nums.iter().any(|n| n.contains(['e', 'E']));
	if long {
		classes.push("number_gt17_digits");
	}
	if expo {
		classes.push("number_exponent_notation");
	}
	(utf16_differs || long || expo, classes)
}

pub fn number_property(n: &str) -> Result<Vec<&'static str>, String> {
	property(&RefValue::Num(n.to_string()))?;
	// cross-check of the trusted parser with exact arithmetic
	let unsigned = n.trim_start_matches('-');
	let f = refcanon::nearest_double(unsigned).ok_or("harness: generated number overflows")?;
	refcanon::verify_nearest(unsigned, f).map_err(|m| format!("harness: core's float parser is not correctly rounded here: {m}"))?;
	let mut classes = vec![];
	if sig_digits(n) > 17 {
		classes.push("gt17_digits");
	}
	if sig_digits(n) > 19 {
		classes.push("gt19_digits");
	}
	if n.contains(['e', 'E']) {
		classes.push("exponent_notation");
	}
	if f != 0.0 && f < f64::MIN_POSITIVE {
		classes.push("subnormal");
	}
	let c = refcanon::canonical_number(n).unwrap();
	if c.contains('e') {
		classes.push("canonical_has_exponent");
	}
	Ok(classes)
}

pub fn run(ctx: &mut Ctx) {
	if ctx.wants("V_rfc_vectors") {
		ctx.begin_family("V_rfc_vectors");
		let mut fam = Fam::new("V_rfc_vectors", "RFC 8785 Appendix B number table (bit pattern -> text), the section 3.2.3 sorting example and the section 3.2.2 sample; every special number of the generator's list", true);
		for (bits, want) in refcanon::RFC8785_APPENDIX_B {
			fam.tick();
			let f = f64::from_bits(*bits);
			// spell the double exactly, canonicalize, compare with the RFC's expected text
			let spelling = if f == 0.0 { if f.is_sign_negative() { "-0".to_string() } else { "0".to_string() } } else { format!("{}{}", if f < 0.0 { "-" } else { "" }, Dec::from_f64(f.abs()).to_sci()) };
			let mut v = RefValue::Num(spelling.clone()).to_value();
			v.canonicalize();
			let got = v.compact_print().to_string();
			if &got != want {
				fam.fail(json!({"number": spelling}), format!("RFC 8785 Appendix B: {bits:#018x} must serialize as {want}, got {got}"), None);
			} else {
				fam.nontrivial();
			}
		}
		let sorting = RefValue::Obj(vec![
			("\u{20ac}".into(), RefValue::str("Euro Sign")),
			("\r".into(), RefValue::str("Carriage Return")),
			("\u{fb33}".into(), RefValue::str("Hebrew Letter Dalet With Dagesh")),
			("1".into(), RefValue::str("One")),
			("\u{1f600}".into(), RefValue::str("Emoji: Grinning Face")),
			("\u{80}".into(), RefValue::str("Control")),
			("\u{f6}".into(), RefValue::str("Latin Small Letter O With Diaeresis")),
		]);
		fam.tick();
		let mut sv = sorting.to_value();
		sv.canonicalize();
		let keys: Vec<String> = sv.as_object().unwrap().iter().map(|e| e.key.to_string()).collect();
		if keys != ["\r", "1", "\u{80}", "\u{f6}", "\u{20ac}", "\u{1f600}", "\u{fb33}"] {
			fam.fail(json!({"value": sorting.encode()}), format!("RFC 8785 section 3.2.3 example sorted as {keys:?}"), None);
		} else {
			fam.nontrivial();
		}
		fam.sample(|| json!({"bits": "0x44b52d02c7e14af6", "expected": "1e+23"}));
		ctx.add(fam);
	}
	let max_digits = ctx.pick(40, 400);
	if ctx.wants("N_isolated_numbers") {
		let n = ctx.pick(600_000, 5_000_000);
		let fam = Fam::new("N_isolated_numbers", &format!("proptest: one number per case: i32, scaled random digits (<= {max_digits} significant digits, magnitude 1e-340..1e300), decimals at/next to the exact midpoint of two adjacent doubles, layout thresholds and other specials, integers around 2^53/2^63/2^64/1e21, 17/21/26-digit spellings of random doubles; canonical text == reference (core's correctly rounded parser + ECMAScript Number::toString with closest/ties-to-even digit selection), and the parser's choice is re-validated with exact decimal arithmetic; non-trivial = > 17 significant digits or exponent notation"), false);
		let fam = run_proptest(
			ctx,
			fam,
			n,
			move || arb_ijson_number(max_digits),
			|s| match number_property(s) {
				Ok(classes) => Outcome::ok(!classes.is_empty(), classes),
				Err(m) => Outcome::fail(m),
			},
			|s| json!({ "number": s }),
		);
		ctx.add(fam);
	}
	if ctx.wants("G_ijson_values") {
		let n = ctx.pick(150_000, 600_000);
		let fam = Fam::new("G_ijson_values", "proptest: I-JSON trees (no duplicate keys; keys biased to U+E000..U+FFFF vs supplementary-plane and the RFC's example keys; numbers from the isolated-number mix): canonicalize / canonicalize_with / Object::canonicalize(+_with) then compact_print == reference canonical form; non-trivial = an object whose UTF-16 key order differs from code-point order, or a number with > 17 digits / exponent notation", false);
		let fam = run_proptest(
			ctx,
			fam,
			n,
			move || arb_ijson_value(max_digits.min(60)),
			|v| match property(v) {
				Ok(()) => {
					let (nt, classes) = classify(v);
					Outcome::ok(nt, classes)
				}
				Err(m) => Outcome::fail(m),
			},
			|v| json!({"value": v.encode()}),
		);
		ctx.add(fam);
	}
	ctx.assume("core's str::parse::<f64> is correctly rounded (re-validated per case with exact decimal arithmetic) and core's {:e} yields a shortest round-trip digit string (its last digit is re-derived: closest, ties to even, per ECMA-262 Note 2)");
	ctx.assume("domain = I-JSON: no duplicate keys, every number within the finite double range (by construction)");
}

pub fn replay(_family: &str, case: &J) -> Result<(), String> {
	if let Some(n) = case.get("number").and_then(|n| n.as_str()) {
		return number_property(n).map(|_| ());
	}
	property(&RefValue::decode(&case["value"]))
}
