//! C01 — strict acceptance ⇔ RFC 8259 (+ well-formed UTF-8); all entry points agree.
use crate::entry::{parse_bytes_via, parse_via, strict, Ep, ALL_EPS};
use crate::framework::{dec_bytes, run_proptest, Ctx, Fam, Outcome};
use crate::gen;
use crate::parsefam::{self as pf, Acc};
use crate::refjson::ref_parse;
use serde_json::{json, Value as J};

pub const CLASSES: &[&str] = &[
	"accepted",
	"rejected_syntax_prefix_lt2",
	"rejected_syntax_prefix_ge2",
	"rejected_surrogate_only",
	"rejected_utf8_only",
	"rejected_utf8_after_syntax_error",
];

const TWO_EPS: [Ep; 2] = [Ep::Str, Ep::Slice];

/// The property on one input. Returns `Err(message)` on a violation,
/// otherwise the class index and whether the case is non-trivial.
pub fn property(input: &[u8], eps: &[Ep]) -> Result<(usize, bool), String> {
	match std::str::from_utf8(input) {
		Ok(text) => {
			let chars: Vec<char> = text.chars().collect();
			let r = ref_parse(&chars, false);
			let expected = r.accepted_strict();
			let mut first: Option<json_syntax::Value> = None;
			for &ep in eps {
				let out = parse_via(ep, text, strict());
				match out.result {
					Ok((v, _)) => {
						if !expected {
							return Err(format!(
								"{} accepted an input the RFC 8259 reference rejects (reference: syntax_err={:?}, surrogate events={})",
								ep.name(),
								r.syntax_err,
								r.events.len()
							));
						}
						match &first {
							None => first = Some(v),
							Some(f) => {
								if *f != v {
									return Err(format!("{} returned a different value than {}", ep.name(), eps[0].name()));
								}
							}
						}
					}
					Err(e) => {
						if expected {
							return Err(format!("{} rejected a valid RFC 8259 document with {:?}", ep.name(), e));
						}
					}
				}
			}
			if expected {
				Ok((0, true))
			} else {
				match r.syntax_err {
					Some((i, _)) => {
						if i >= 2 {
							Ok((2, true))
						} else {
							Ok((1, false))
						}
					}
					None => Ok((3, true)),
				}
			}
		}
		Err(e) => {
			for ep in [Ep::Slice, Ep::SliceWith] {
				let out = parse_bytes_via(ep, input, strict());
				if out.result.is_ok() {
					return Err(format!(
						"{} accepted ill-formed UTF-8 (first ill-formed sequence at byte {})",
						ep.name(),
						e.valid_up_to()
					));
				}
			}
			let valid = std::str::from_utf8(&input[..e.valid_up_to()]).unwrap();
			let chars: Vec<char> = valid.chars().collect();
			let r = ref_parse(&chars, false);
			let utf8_only = match r.syntax_err {
				None => true,
				Some((i, _)) => i == chars.len(),
			};
			Ok(if utf8_only { (4, true) } else { (5, false) })
		}
	}
}

fn checker<'a>(eps: &'a [Ep]) -> impl Fn(&mut Acc, &[u8]) + Sync + 'a {
	move |acc, input| match property(input, eps) {
		Ok((class, nt)) => {
			acc.class(class);
			if nt {
				acc.nontrivial(input);
			}
		}
		Err(m) => acc.fail(input, m),
	}
}

pub fn run(ctx: &mut Ctx) {
	let all = checker(&ALL_EPS);
	let two = checker(&TWO_EPS);
	let extra_all = json!({"eps": "all"});
	let extra_two = json!({"eps": "two"});

	// F1 — exhaustive strings over the 18-character alphabet
	let (l_all, l_two) = ctx.pick((5, 7), (6, 8));
	if ctx.wants("F1_chars_all_entry_points") {
		ctx.begin_family("F1_chars_all_entry_points");
		let acc = pf::enum_strings(pf::F1_ALPHABET, 0, l_all, false, &all);
		ctx.add(acc.into_fam(
			"F1_chars_all_entry_points",
			&format!("every string of length <= {l_all} over the alphabet {:?}, through all 13 entry points; non-trivial = accepted, or rejected with a viable prefix of >= 2 characters", String::from_utf8_lossy(pf::F1_ALPHABET)),
			true,
			CLASSES,
			&extra_all,
		));
	}
	if ctx.wants("F1_chars_str_slice") {
		ctx.begin_family("F1_chars_str_slice");
		let acc = pf::enum_strings(pf::F1_ALPHABET, l_all + 1, l_two, false, &two);
		ctx.add(acc.into_fam(
			"F1_chars_str_slice",
			&format!("every string of length {}..={l_two} over the same alphabet, through parse_str and parse_slice", l_all + 1),
			true,
			CLASSES,
			&extra_two,
		));
	}

	// F2 — token sequences
	if ctx.wants("F2_tokens") {
		let ntok = ctx.pick(5, 6);
		ctx.begin_family("F2_tokens");
		let acc = pf::enum_token_seqs(&pf::f2_tokens(), ntok, &all);
		ctx.add(acc.into_fam(
			"F2_tokens",
			&format!("every sequence of <= {ntok} tokens from {:?}, all entry points", pf::f2_tokens()),
			true,
			CLASSES,
			&extra_all,
		));
	}

	// S — sequences of string elements (escapes around the surrogate ranges), strict mode
	if ctx.wants("S_escape_sequences") {
		ctx.begin_family("S_escape_sequences");
		let l = ctx.pick(4, 5);
		let inputs = super::c12::element_sequences(l);
		let acc = pf::run_list(&inputs, false, &all);
		ctx.add(acc.into_fam(
			"S_escape_sequences",
			&format!("every sequence of 1..={l} string elements from {:?} as string value, object key and array item, all entry points: accepted <=> every high-surrogate escape is immediately followed by a low-surrogate escape and no other surrogate escape occurs", super::c12::ELEMENTS),
			true,
			CLASSES,
			&extra_all,
		));
	}

	// F3 — transition cover
	if ctx.wants("F3_transition_cover") {
		let numlen = ctx.pick(5, 7);
		ctx.begin_family("F3_transition_cover");
		let inputs: Vec<Vec<u8>> = pf::f3_inputs(numlen).into_iter().map(String::into_bytes).collect();
		let acc = pf::run_list(&inputs, true, &all);
		ctx.add(acc.into_fam(
			"F3_transition_cover",
			&format!("every viable lexical prefix (numbers <= {numlen} symbols, literals, string bodies with every escape and hex position) and every structural state x every probe character (128 ASCII + 15 others) x contexts (top, array item, object value, key) x (deviation last | followed by the shortest completion)"),
			true,
			CLASSES,
			&extra_all,
		));
	}

	// F4 — byte-level corpus edits
	if ctx.wants("F4_corpus_byte_edits") {
		let corpus = pf::load_corpus(ctx, 40);
		let all256: Vec<u8> = (0u16..256).map(|b| b as u8).collect();
		let probes: &[u8] = if ctx.quick() { pf::PROBE_BYTES } else { &all256 };
		ctx.begin_family("F4_corpus_byte_edits");
		let acc = pf::corpus_edits(&corpus, probes, &all);
		ctx.add(acc.into_fam(
			"F4_corpus_byte_edits",
			&format!("{} corpus documents (JSONTestSuite <= 2 KiB + 40 generated): truncation, deletion, and insertion/replacement by {} probe bytes at every offset; parse_slice(+_with), and all char entry points when the result is valid UTF-8", corpus.len(), probes.len()),
			false,
			CLASSES,
			&extra_all,
		));
	}

	// F6 — UTF-8 well-formedness
	if ctx.wants("F6_utf8_exhaustive") {
		ctx.begin_family("F6_utf8_exhaustive");
		let tail: Vec<u8> = if ctx.quick() {
			pf::UTF8_TAIL_QUICK.to_vec()
		} else {
			(0u16..256).step_by(3).map(|b| b as u8).chain([0x7f, 0x80, 0x8f, 0x90, 0xbf, 0xc0]).collect()
		};
		let acc = pf::utf8_exhaustive(pf::F6_CONTEXTS, &tail, &two);
		ctx.add(acc.into_fam(
			"F6_utf8_exhaustive",
			&format!("every 2-byte sequence and every 3-byte sequence with first byte >= 0x80 in 8 contexts, 4-byte sequences with every first/second byte and {} values for the 3rd/4th in 2 contexts; oracle = core::str::from_utf8 + reference automaton", tail.len()),
			true,
			CLASSES,
			&extra_two,
		));
	}

	// L — long flat documents (counters, limits and buffers that only matter at scale)
	if ctx.wants("L_long_documents") {
		ctx.begin_family("L_long_documents");
		let sizes: Vec<usize> = if ctx.quick() { vec![1_000, 12_000, 70_000] } else { vec![1_000, 12_000, 70_000, 300_000, 1_000_000] };
		let mut docs: Vec<Vec<u8>> = vec![];
		for &n in &sizes {
			let records: String = (0..n).map(|i| format!("{{\"id\":{i}}}")).collect::<Vec<_>>().join(",");
			let numbers: String = (0..n).map(|i| format!("{}", i as f64 / 8.0)).collect::<Vec<_>>().join(", ");
			let strings: String = (0..n).map(|i| format!("\"s{i}\\n\"")).collect::<Vec<_>>().join(",");
			let nested: String = (0..n).map(|i| format!("[[{i}],{{}}]")).collect::<Vec<_>>().join(",");
			let members: String = (0..n).map(|i| format!("\"k{i}\":[{i}]")).collect::<Vec<_>>().join(",");
			for body in [format!("[{records}]"), format!("[{numbers}]"), format!("[{strings}]"), format!("[{nested}]"), format!("{{{members}}}"), format!("\"{}\"", "x\u{e9}".repeat(n)), format!("{}", "7".repeat(n)), format!("[{}]", " ".repeat(n))] {
				// the valid document, and three damaged variants near its end
				let b = body.into_bytes();
				let l = b.len();
				docs.push(b.clone());
				let mut t = b.clone();
				t.truncate(l - 1);
				docs.push(t);
				let mut d = b.clone();
				d.insert(l - 1, b',');
				docs.push(d);
				let mut e = b.clone();
				e.push(b']');
				docs.push(e);
			}
		}
		let acc = pf::run_list(&docs, false, &two);
		ctx.add(acc.into_fam(
			"L_long_documents",
			&format!("synthesised long flat documents with {sizes:?} elements (records, numbers, strings, nested pairs, one object with that many members, one long string, one long number, long whitespace), each also truncated, with a stray comma and with an extra closing bracket; parse_str and parse_slice vs the reference automaton"),
			true,
			CLASSES,
			&extra_two,
		));
	}

	// F5 — grammar-based + mutational sampling
	if ctx.wants("F5_grammar_mutation") {
		let n = ctx.pick(20_000, 500_000);
		let fam = Fam::new(
			"F5_grammar_mutation",
			"proptest: random tree rendered with random whitespace/escapes, then 0..=3 random character mutations; all entry points; verdict must equal the reference automaton's",
			false,
		);
		let fam = run_proptest(
			ctx,
			fam,
			n,
			|| {
				(
					gen::arb_doc_value(gen::ValueCfg::MEDIUM),
					gen::arb_choices(),
					proptest::collection::vec(gen::arb_mutation(), 0..=3),
				)
			},
			|(v, ch, muts)| {
				let text = f5_text(v, ch, muts);
				match property(text.as_bytes(), &ALL_EPS) {
					Ok((class, nt)) => Outcome::ok(nt, vec![CLASSES[class], if muts.is_empty() { "unmutated" } else { "mutated" }]),
					Err(m) => Outcome::fail(m),
				}
			},
			|(v, ch, muts)| {
				let text = f5_text(v, ch, muts);
				pf::case_json(text.as_bytes(), &json!({"eps": "all"}))
			},
		);
		ctx.add(fam);
	}

	ctx.assume("core::str::from_utf8 is the definition of well-formed UTF-8");
	ctx.assume("the reference automaton (harness/src/refjson.rs) is a faithful transcription of the RFC 8259 grammar");
}

pub fn f5_text(v: &crate::refvalue::RefValue, ch: &[u8], muts: &[gen::Mutation]) -> String {
	let text = gen::render_doc(v, ch, gen::RenderCfg::FREE);
	let mut chars: Vec<char> = text.chars().collect();
	for m in muts {
		gen::apply_mutation(&mut chars, m);
	}
	chars.into_iter().collect()
}

pub fn replay(_family: &str, case: &J) -> Result<(), String> {
	let input = dec_bytes(case);
	property(&input, &ALL_EPS).map(|_| ())
}
