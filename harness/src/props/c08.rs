//! C08 — compact output is the unique minimal serialization of the value.
use super::printing::*;
use crate::framework::{run_proptest, Ctx, Fam, Outcome};
use crate::gen;
use crate::refprint;
use crate::refvalue::RefValue;
use json_syntax::Print;
use proptest::prelude::*;
use rayon::prelude::*;
use serde_json::{json, Value as J};

pub fn property(v: &RefValue, route: bool) -> Result<(), String> {
	let expected = refprint::compact(v);
	let value = build(v, route);
	let outs = [
		("compact_print().to_string()", value.compact_print().to_string()),
		("to_string()", value.to_string()),
		("format!(\"{}\")", format!("{}", value)),
		("format!(\"{:>3}\") (formatter flags must not matter)", format!("{:>3}", value)),
		("String::from(value)", String::from(value.clone())),
		("print_with(Options::compact())", value.print_with(json_syntax::print::Options::compact()).to_string()),
	];
	for (name, got) in outs {
		if got != expected {
			return Err(format!("{name} = {got:?}, reference serialization = {expected:?}"));
		}
	}
	Ok(())
}

fn nontrivial(v: &RefValue) -> (bool, Vec<&'static str>) {
	let mut strs = vec![];
	v.all_strings(&mut strs);
	let special = strs.iter().any(|s| s.chars().any(|c| (c as u32) < 0x20 || c == '"' || c == '\\' || c == '\u{7f}' || c == '\u{2028}' || (c as u32) > 0xffff));
	let deep = v.depth() >= 2;
	let mut classes = vec![];
	if special {
		classes.push("string_needing_care");
	}
	if deep {
		classes.push("nesting_ge2");
	}
	if v.has_duplicate_keys() {
		classes.push("duplicate_keys");
	}
	(special || deep, classes)
}

pub fn run(ctx: &mut Ctx) {
	if ctx.wants("E_all_scalars") {
		ctx.begin_family("E_all_scalars");
		let fam = (0u32..0x110000)
			.into_par_iter()
			.fold(
				|| Fam::new("E_all_scalars", "", true),
				|mut fam, u| {
					if let Some(c) = char::from_u32(u) {
						for as_key in [false, true] {
							fam.tick();
							let v = if as_key { RefValue::Obj(vec![(c.to_string(), RefValue::Null)]) } else { RefValue::Str(c.to_string()) };
							match crate::framework::guarded(|| property(&v, as_key)) {
								Ok(Ok(())) => {
									if u < 0x20 || c == '"' || c == '\\' || u == 0x7f || u == 0x2028 || u == 0x2029 || u > 0xffff || c == '/' {
										fam.nontrivial()
									}
								}
								Ok(Err(m)) | Err(m) => fam.fail(json!({"value": v.encode(), "route_push": as_key}), m, None),
							}
						}
					}
					fam
				},
			)
			.reduce(|| Fam::new("E_all_scalars", "", true), |mut a, b| { a.merge(b); a });
		let mut fam = fam;
		fam.rule = "every Unicode scalar value as a one-character string value and as a one-character key: 6 compact outputs (compact_print, to_string, Display with and without flags, String::from, print_with(compact)) byte-equal to the reference (RFC 8785 escaping); non-trivial = characters below U+0020, quote, backslash, slash, DEL, U+2028/9, non-BMP".into();
		fam.sample(|| json!({"value": RefValue::str("\u{1f}").encode(), "expected": "\"\\u001f\""}));
		ctx.add(fam);
	}
	if ctx.wants("G_values") {
		let n = ctx.pick(300_000, 1_500_000);
		let fam = Fam::new("G_values", "proptest: random nested values (all string classes, arbitrary number spellings up to 400 digits, duplicate and empty keys), built via from_vec or push; non-trivial = a string needing care (control, quote, backslash, DEL, U+2028, non-BMP) or nesting >= 2", false);
		let fam = run_proptest(
			ctx,
			fam,
			n,
			|| (gen::arb_doc_value(print_value_cfg()), any::<bool>()),
			|(v, route)| match property(v, *route) {
				Ok(()) => {
					let (nt, classes) = nontrivial(v);
					Outcome::ok(nt, classes)
				}
				Err(m) => Outcome::fail(m),
			},
			|(v, route)| json!({"value": v.encode(), "route_push": route}),
		);
		ctx.add(fam);
	}
	if ctx.wants("W_width_boundaries") {
		ctx.begin_family("W_width_boundaries");
		let mut fam = Fam::new("W_width_boundaries", "containers whose compact rendering is exactly 2^k - 2 .. 2^k + 2 bytes wide for k in 8, 15, 16, 17 (arrays of one-digit numbers, an object with short keys, one long string inside an array), plus one array of 70,000 items and one 200,000-character string: compact outputs == reference; every case is non-trivial", true);
		let mut cases: Vec<RefValue> = vec![];
		for k in [8u32, 15, 16, 17] {
			for d in -2i64..=2 {
				let w = (1i64 << k) + d;
				// array of n one-digit numbers: width 2n + 1 (n >= 1); odd widths only, even ones get a two-digit first item (+1)
				let n = ((w - 1) / 2) as usize;
				let mut items: Vec<RefValue> = (0..n).map(|i| RefValue::Num(((i % 9) + 1).to_string())).collect();
				if (w - 1) % 2 == 1 && !items.is_empty() {
					items[0] = RefValue::num("10");
				}
				cases.push(RefValue::Arr(items));
				// one string inside an array: ["aaa..."] width = len + 4
				cases.push(RefValue::Arr(vec![RefValue::Str("a".repeat((w - 4).max(0) as usize))]));
				// object {"k":[...]} nested
				let inner: Vec<RefValue> = (0..((w - 7).max(1) / 2) as usize).map(|_| RefValue::num("7")).collect();
				cases.push(RefValue::Obj(vec![("k".into(), RefValue::Arr(inner))]));
			}
		}
		cases.push(RefValue::Arr((0..70_000).map(|i| RefValue::Num((i % 10).to_string())).collect()));
		cases.push(RefValue::Str("\u{e9}x".repeat(100_000)));
		for v in &cases {
			fam.tick();
			match crate::framework::guarded(|| property(v, false)) {
				Ok(Ok(())) => fam.nontrivial(),
				Ok(Err(m)) | Err(m) => fam.fail(json!({"shape": "width boundary case", "compact_len": refprint::compact(v).len()}), crate::framework::truncate(&m, 300), None),
			}
		}
		fam.sample(|| json!({"array_of_one_digit_numbers": 32767, "compact_width": 65535}));
		ctx.add(fam);
	}
	if ctx.wants("B_small_values") {
		ctx.begin_family("B_small_values");
		let mut fam = Fam::new("B_small_values", "bounded-exhaustive: every value of the small-value set (<= 3 levels over 6 leaves)", true);
		for v in small_values() {
			fam.tick();
			match property(&v, false) {
				Ok(()) => {
					if v.is_container() {
						fam.nontrivial()
					}
				}
				Err(m) => fam.fail(json!({"value": v.encode()}), m, None),
			}
		}
		fam.sample(|| json!({"value": small_values()[60].encode()}));
		ctx.add(fam);
	}
	ctx.assume("the reference serializer (harness/src/refprint.rs::compact) transcribes RFC 8785 section 3.2.2.2");
}

pub fn replay(_family: &str, case: &J) -> Result<(), String> {
	let v = RefValue::decode(&case["value"]);
	property(&v, case["route_push"].as_bool().unwrap_or(false))
}
