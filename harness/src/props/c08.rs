//! C08 — compact output is the unique minimal serialization of the value.
use super::printing::*;
use crate::framework::{run_proptest, Ctx, Fam, Outcome};
use crate::gen;
use crate::refprint;
use crate::refvalue::RefValue;
use json_syntax::Print;
use proptest::prelude::*;
use rayon::prelude::*;
use serde_json::{json, Value as J};

pub fn property(v: &RefValue, route: bool) -> Result<(), String> {
	let expected = refprint::compact(v);
	let value = build(v, route);
	let outs = [
		("compact_print().to_string()", value.compact_print().to_string()),
		("to_string()", value.to_string()),
		("format!(\"{}\")", format!("{}", value)),
		("format!(\"{:>3}\") (formatter flags must not matter)", format!("{:>3}", value)),
		("String::from(value)", String::from(value.clone())),
		("print_with(Options::compact())", value.print_with(json_syntax::print::Options::compact()).to_string()),
	];
	for (name, got) in outs {
		if got != expected {
			return Err(format!("{name} = {got:?}, reference serialization = {expected:?}"));
		}
	}
	Ok(())
}

fn nontrivial(v: &RefValue) -> (bool, Vec<&'static str>) {
	let mut strs = vec![];
	v.all_strings(&mut strs);
	let special = strs.iter().any(|s| s.chars().any(|c| (c as u32) < 0x20 || c == '"' || c == '\\' || c == '\u{7f}' || c == '\u{2028}' || (c as u32) > 0xffff));
	let deep = v.depth() >= 2;
	let mut classes = vec![];
	if special {
		classes.push("string_needing_care");
	}
	if deep {
		classes.push("nesting_ge2");
	}
	if v.has_duplicate_keys() {
		classes.push("duplicate_keys");
	}
	(special || deep, classes)
}

pub fn run(ctx: &mut Ctx) {
	if ctx.wants("E_all_scalars") {
		ctx.begin_family("E_all_scalars");
		let fam = (0u32..0x110000)
			.into_par_iter()
			.fold(
				|| Fam::new("E_all_scalars", "", true),
				|mut fam, u| {
					if let Some(c) = char::from_u32(u) {
						for as_key in [false, true] {
							fam.tick();
							let v = if as_key { RefValue::Obj(vec![(c.to_string(), RefValue::Null)]) } else { RefValue::Str(c.to_string()) };
							match crate::framework::guarded(|| property(&v, as_key)) {
								Ok(Ok(())) => {
									if u < 0x20 || c == '"' || c == '\\' || u == 0x7f || u == 0x2028 || u == 0x2029 || u > 0xffff || c == '/' {
										fam.nontrivial()
									}
								}
								Ok(Err(m)) | Err(m) => fam.fail(json!({"value": v.encode()}), m, None),
							}
						}
					}
					fam
				},
			)
			.reduce(|| Fam::new("E_all_scalars", "", true), |mut a, b| { a.merge(b); a });
		let mut fam = fam;
		fam.rule = "every Unicode scalar value as a one-character string value and as a one-character key: 6 compact outputs (compact_print, to_string, Display with and without flags, String::from, print_with(compact)) byte-equal to the reference (RFC 8785 escaping); non-trivial = characters below U+0020, quote, backslash, slash, DEL, U+2028/9, non-BMP".into();
		fam.sample(|| json!({"value": RefValue::str("\u{1f}").encode(), "expected": "\"\\u001f\""}));
		ctx.add(fam);
	}
	if ctx.wants("G_values") {
		let n = ctx.pick(100_000, 1_500_000);
		let fam = Fam::new("G_values", "proptest: random nested values (all string classes, arbitrary number spellings up to 400 digits, duplicate and empty keys), built via from_vec or push; non-trivial = a string needing care (control, quote, backslash, DEL, U+2028, non-BMP) or nesting >= 2", false);
		let fam = run_proptest(
			ctx,
			fam,
			n,
			|| (gen::arb_doc_value(print_value_cfg()), any::<bool>()),
			|(v, route)| match property(v, *route) {
				Ok(()) => {
					let (nt, classes) = nontrivial(v);
					Outcome::ok(nt, classes)
				}
				Err(m) => Outcome::fail(m),
			},
			|(v, route)| json!({"value": v.encode(), "route_push": route}),
		);
		ctx.add(fam);
	}
	if ctx.wants("B_small_values") {
		ctx.begin_family("B_small_values");
		let mut fam = Fam::new("B_small_values", "bounded-exhaustive: every value of the small-value set (<= 3 levels over 6 leaves)", true);
		for v in small_values() {
			fam.tick();
			match property(&v, false) {
				Ok(()) => {
					if v.is_container() {
						fam.nontrivial()
					}
				}
				Err(m) => fam.fail(json!({"value": v.encode()}), m, None),
			}
		}
		fam.sample(|| json!({"value": small_values()[60].encode()}));
		ctx.add(fam);
	}
	ctx.assume("the reference serializer (harness/src/refprint.rs::compact) transcribes RFC 8785 section 3.2.2.2");
}

pub fn replay(_family: &str, case: &J) -> Result<(), String> {
	let v = RefValue::decode(&case["value"]);
	property(&v, case["route_push"].as_bool().unwrap_or(false))
}
