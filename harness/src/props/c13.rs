//! C13 — pretty-print layout follows the documented options and limits exactly.
use super::printing::*;
use crate::framework::{run_proptest, Ctx, Fam, Outcome};
use crate::gen;
use crate::refprint::{self, Lim, Opts};
use crate::refvalue::RefValue;
use proptest::prelude::*;
use rayon::prelude::*;
use serde_json::Value as J;

pub fn property(v: &RefValue, oc: &OptCase, route: bool) -> Result<(bool, Vec<&'static str>), String> {
	let value = build(v, route);
	let got = oc.print(&value);
	let o = oc.opts();
	let (expected, node) = refprint::print_layout(v, &o);
	if got != expected {
		return Err(format!("layout differs from the documented one:\n got      {got:?}\n expected {expected:?}\n options  {}", oc.encode()));
	}
	if let OptCase::Preset(p) = oc {
		if *p != "pretty" && got.contains('\n') {
			return Err(format!("the {p} preset emitted a line break"));
		}
	}
	let (exp, inl) = refprint::layout_mix(&node);
	let mut classes = vec![];
	if exp && inl {
		classes.push("expanded_and_inline_containers");
	}
	let has_arr = v.any(&|x| matches!(x, RefValue::Arr(_)));
	let has_obj = v.any(&|x| matches!(x, RefValue::Obj(_)));
	let differ = o.array_begin != o.object_begin || o.array_end != o.object_end || o.array_empty != o.object_empty || o.array_before_comma != o.object_before_comma || o.array_after_comma != o.object_after_comma || o.array_limit != o.object_limit;
	if differ && has_arr && has_obj {
		classes.push("array_and_object_spacing_differ");
	}
	if exp && !inl {
		classes.push("all_expanded");
	}
	let nt = (exp && inl) || (differ && has_arr && has_obj);
	Ok((nt, classes))
}

/// Sets a limit relative to the actual width/length of one container of the value.
pub fn relative(v: &RefValue, base: &Opts, sel: u16, mode: u8, dw: i8, dn: i8) -> Opts {
	let mut unlimited = base.clone();
	unlimited.array_limit = Lim::None;
	unlimited.object_limit = Lim::None;
	let node = refprint::layout(v, &unlimited);
	let mut metrics = vec![];
	refprint::container_metrics(&node, &mut metrics);
	if metrics.is_empty() {
		return base.clone();
	}
	let (is_array, len, w) = metrics[gen::map_index(sel, metrics.len())];
	let w = (w.unwrap() as i64 + dw as i64).max(0) as usize;
	let n = (len as i64 + dn as i64).max(0) as usize;
	let lim = match mode % 3 {
		0 => Lim::Width(w),
		1 => Lim::Item(n),
		_ => Lim::ItemOrWidth(n, w),
	};
	let mut o = base.clone();
	if is_array {
		o.array_limit = lim;
	} else {
		o.object_limit = lim;
	}
	o
}

/// Builds the I_deep_indentation case: (value, options).
pub fn deep_case(inner: &RefValue, levels: &[(bool, bool)], base: &Opts, la: Lim, lo: Lim) -> (RefValue, Opts) {
	let mut v = inner.clone();
	for (i, (is_obj, second)) in levels.iter().enumerate() {
		v = if *is_obj {
			let mut es = vec![(format!("l{i}"), v)];
			if *second {
				es.push(("s".into(), RefValue::Null));
			}
			RefValue::Obj(es)
		} else if *second {
			RefValue::Arr(vec![v, RefValue::num("0")])
		} else {
			RefValue::Arr(vec![v])
		};
	}
	let mut o = base.clone();
	o.array_limit = la;
	o.object_limit = lo;
	(v, o)
}

pub fn run(ctx: &mut Ctx) {
	let rule_nt = "non-trivial = at least one container expanded and one inline, or array and object spacing/limits differ while both kinds occur";
	if ctx.wants("G_values_x_options") {
		let n = ctx.pick(250_000, 2_000_000);
		let fam = Fam::new("G_values_x_options", &format!("proptest: random value x random option record, output byte-equal to the reference layout printer; {rule_nt}"), false);
		let fam = run_proptest(
			ctx,
			fam,
			n,
			|| (gen::arb_doc_value(print_value_cfg()), arb_optcase(), any::<bool>()),
			|(v, oc, route)| match property(v, oc, *route) {
				Ok((nt, classes)) => Outcome::ok(nt, classes),
				Err(m) => Outcome::fail(m),
			},
			|(v, oc, route)| case_json(v, oc, *route),
		);
		ctx.add(fam);
	}
	if ctx.wants("R_relative_thresholds") {
		let n = ctx.pick(250_000, 2_000_000);
		let fam = Fam::new("R_relative_thresholds", &format!("proptest: as above, but the array or object limit is set to Width(w+d), Item(n+d) or ItemOrWidth(n+d, w+d) with d in -1..=1 around the actual one-line width w and length n of a randomly chosen container of the value; {rule_nt}"), false);
		let fam = run_proptest(
			ctx,
			fam,
			n,
			|| (prop_oneof![6 => gen::arb_container_value(print_value_cfg()), 1 => gen::arb_large_value(true)], refprint::arb_custom_opts(), any::<u16>(), 0u8..3, -1i8..=1, -1i8..=1),
			|(v, base, sel, mode, dw, dn)| {
				let o = relative(v, base, *sel, *mode, *dw, *dn);
				match property(v, &OptCase::Custom(o), false) {
					Ok((nt, classes)) => Outcome::ok(nt, classes),
					Err(m) => Outcome::fail(m),
				}
			},
			|(v, base, sel, mode, dw, dn)| case_json(v, &OptCase::Custom(relative(v, base, *sel, *mode, *dw, *dn)), false),
		);
		ctx.add(fam);
	}
	if ctx.wants("I_deep_indentation") {
		let n = ctx.pick(20_000, 300_000);
		let fam = Fam::new("I_deep_indentation", &format!("proptest: chains of arrays/objects 8..80 levels deep around a small value (some levels with a second member), printed with a random custom record whose limits are biased to force expansion (Always / Item(0) / Width(0..6)) so that lines are indented by up to 4 x 80 columns or 2 x 80 tabs; byte equality with the reference layout; {rule_nt}"), false);
		let fam = run_proptest(
			ctx,
			fam,
			n,
			|| {
				let lim = prop_oneof![3 => Just(Lim::Always), 2 => Just(Lim::Item(0)), 2 => (0usize..6).prop_map(Lim::Width), 1 => refprint::arb_lim()];
				(gen::arb_value(gen::ValueCfg::SMALL), proptest::collection::vec((any::<bool>(), any::<bool>()), 8..80), refprint::arb_custom_opts(), lim.clone(), lim)
			},
			|(inner, levels, base, la, lo)| {
				let (v, o) = deep_case(inner, levels, base, *la, *lo);
				match property(&v, &OptCase::Custom(o), false) {
					Ok((nt, classes)) => Outcome::ok(nt || levels.len() >= 32, classes),
					Err(m) => Outcome::fail(m),
				}
			},
			|(inner, levels, base, la, lo)| {
				let (v, o) = deep_case(inner, levels, base, *la, *lo);
				case_json(&v, &OptCase::Custom(o), false)
			},
		);
		ctx.add(fam);
	}
	if ctx.wants("B_small_values_x_option_set") {
		ctx.begin_family("B_small_values_x_option_set");
		let values = small_values();
		let opts = option_set(ctx, ctx.pick(600, 3000));
		let proto = Fam::new("B_small_values_x_option_set", &format!("bounded-exhaustive product: {} small values x {} option records (presets, one-field-at-a-time variations x 4 limits, seeded random records); {rule_nt}", values.len(), opts.len()), true);
		let fam = values
			.par_iter()
			.fold(
				|| proto.fresh(),
				|mut fam, v| {
					for oc in &opts {
						fam.tick();
						match crate::framework::guarded(|| property(v, oc, false)) {
							Ok(Ok((nt, _))) => {
								if nt {
									fam.nontrivial()
								}
							}
							Ok(Err(m)) | Err(m) => fam.fail(case_json(v, oc, false), m, None),
						}
					}
					fam
				},
			)
			.reduce(|| proto.fresh(), |mut a, b| { a.merge(b); a });
		let mut fam = fam;
		fam.sample(|| case_json(&values[200], &opts[20], false));
		ctx.add(fam);
	}
	ctx.assume("the reference layout printer (harness/src/refprint.rs) transcribes the rustdoc of print::Options / Limit: width = characters of the one-line form, empty containers use *_empty, expanded children are indented depth x unit");
}

pub fn replay(family: &str, case: &J) -> Result<(), String> {
	let _family = family;
	let (v, oc, route) = case_decode(case);
	property(&v, &oc, route).map(|_| ())
}
