//! C19 — the json! macro builds the same value as parsing the same literal text.
//! The domain is *programs*: documents are emitted as Rust source full of
//! `json!` invocations, compiled against the current /repo and run.
use crate::framework::{sample_strategy, seed_bytes, verif_dir, Ctx, Fam};
use crate::gen;
use proptest::prelude::*;
use serde_json::{json, Value as J};
use std::process::Command;

#[derive(Clone, Debug)]
pub enum MKey {
	Lit(String),
	Paren(String),
	ParenString(String),
	KeyFrom(String),
}

#[derive(Clone, Debug)]
pub enum MNode {
	Null,
	Bool(bool),
	/// bare integer literal within i32
	Int(i32),
	/// suffixed integer literal: (value text, suffix)
	IntSuffixed(String, &'static str),
	/// float whose shortest representation is the literal itself
	FloatStable(String),
	/// float literal compared by f64 bits only
	FloatFree(String),
	/// f32-suffixed literal: (Rust literal, JSON text = shortest round-trip digits of that f32)
	FloatF32(String, String),
	Str(String),
	/// `Value::from(<scalar expr>)`
	Expr(Box<MNode>),
	Arr(Vec<MNode>, bool),
	Obj(Vec<(MKey, MNode)>, bool),
}

fn rust_str(s: &str) -> String {
	format!("{s:?}")
}

impl MKey {
	fn text(&self) -> &str {
		match self {
			MKey::Lit(s) | MKey::Paren(s) | MKey::ParenString(s) | MKey::KeyFrom(s) => s,
		}
	}
	fn rust(&self) -> String {
		match self {
			MKey::Lit(s) => rust_str(s),
			MKey::Paren(s) => format!("({})", rust_str(s)),
			MKey::ParenString(s) => format!("(String::from({}))", rust_str(s)),
			MKey::KeyFrom(s) => format!("Key::from({})", rust_str(s)),
		}
	}
}

impl MNode {
	/// Rust tokens inside `json!( .. )`.
	pub fn rust(&self, out: &mut String) {
		match self {
			MNode::Null => out.push_str("null"),
			MNode::Bool(b) => out.push_str(if *b { "true" } else { "false" }),
			MNode::Int(i) => out.push_str(&i.to_string()),
			MNode::IntSuffixed(t, s) => {
				out.push_str(t);
				out.push_str(s)
			}
			MNode::FloatStable(t) | MNode::FloatFree(t) => out.push_str(t),
			MNode::FloatF32(lit, _) => out.push_str(lit),
			MNode::Str(s) => out.push_str(&rust_str(s)),
			MNode::Expr(inner) => match &**inner {
				MNode::Null => out.push_str("Value::from(Value::Null)"),
				// floats only have TryFrom
				f @ (MNode::FloatStable(_) | MNode::FloatFree(_) | MNode::FloatF32(..)) => {
					out.push_str("Value::try_from(");
					f.rust(out);
					out.push_str(").unwrap()");
				}
				other => {
					out.push_str("Value::from(");
					other.rust(out);
					out.push(')');
				}
			},
			MNode::Arr(items, trailing) => {
				out.push('[');
				for (i, x) in items.iter().enumerate() {
					if i > 0 {
						out.push_str(", ");
					}
					x.rust(out);
				}
				if *trailing && !items.is_empty() {
					out.push(',');
				}
				out.push(']');
			}
			MNode::Obj(entries, trailing) => {
				out.push('{');
				for (i, (k, x)) in entries.iter().enumerate() {
					if i > 0 {
						out.push_str(", ");
					}
					out.push_str(&k.rust());
					out.push_str(": ");
					x.rust(out);
				}
				if *trailing && !entries.is_empty() {
					out.push(',');
				}
				out.push('}');
			}
		}
	}

	/// The corresponding JSON text.
	pub fn json(&self, out: &mut String) {
		match self {
			MNode::Null => out.push_str("null"),
			MNode::Bool(b) => out.push_str(if *b { "true" } else { "false" }),
			MNode::Int(i) => out.push_str(&i.to_string()),
			MNode::IntSuffixed(t, _) => out.push_str(t),
			MNode::FloatStable(t) | MNode::FloatFree(t) => out.push_str(t),
			MNode::FloatF32(_, text) => out.push_str(text),
			MNode::Str(s) => crate::refprint::escape_string(s, out),
			MNode::Expr(inner) => inner.json(out),
			MNode::Arr(items, _) => {
				out.push('[');
				for (i, x) in items.iter().enumerate() {
					if i > 0 {
						out.push(',');
					}
					x.json(out);
				}
				out.push(']');
			}
			MNode::Obj(entries, _) => {
				out.push('{');
				for (i, (k, x)) in entries.iter().enumerate() {
					if i > 0 {
						out.push(',');
					}
					crate::refprint::escape_string(k.text(), out);
					out.push(':');
					x.json(out);
				}
				out.push('}');
			}
		}
	}

	fn has_free_float(&self) -> bool {
		match self {
			MNode::FloatFree(_) | MNode::FloatF32(..) => true,
			MNode::Expr(i) => i.has_free_float(),
			MNode::Arr(a, _) => a.iter().any(|x| x.has_free_float()),
			MNode::Obj(o, _) => o.iter().any(|(_, x)| x.has_free_float()),
			_ => false,
		}
	}

	/// 0 = strict equality, 1 = free floats by f64 bits, 2 = the document has f32-suffixed literals (same f32)
	fn float_mode(&self) -> u8 {
		fn has_f32(n: &MNode) -> bool {
			match n {
				MNode::FloatF32(..) => true,
				MNode::Expr(i) => has_f32(i),
				MNode::Arr(a, _) => a.iter().any(has_f32),
				MNode::Obj(o, _) => o.iter().any(|(_, x)| has_f32(x)),
				_ => false,
			}
		}
		if has_f32(self) {
			2
		} else if self.has_free_float() {
			1
		} else {
			0
		}
	}

	fn depth(&self) -> usize {
		match self {
			MNode::Arr(a, _) => 1 + a.iter().map(|x| x.depth()).max().unwrap_or(0),
			MNode::Obj(o, _) => 1 + o.iter().map(|(_, x)| x.depth()).max().unwrap_or(0),
			_ => 0,
		}
	}

	fn interesting(&self) -> bool {
		// nesting >= 2 and (a trailing comma after a container or a non-literal key)
		fn feature(n: &MNode) -> bool {
			match n {
				MNode::Arr(a, t) => (*t && a.last().map(|x| matches!(x, MNode::Arr(..) | MNode::Obj(..))).unwrap_or(false)) || a.iter().any(feature),
				MNode::Obj(o, t) => (*t && o.last().map(|(_, x)| matches!(x, MNode::Arr(..) | MNode::Obj(..))).unwrap_or(false)) || o.iter().any(|(k, x)| !matches!(k, MKey::Lit(_)) || feature(x)),
				_ => false,
			}
		}
		self.depth() >= 2 && feature(self)
	}
}

fn arb_key_text() -> BoxedStrategy<String> {
	prop_oneof![4 => prop::sample::select(vec!["a", "b", "", "key", "a b", "\"q\"", "\u{e9}", "\u{10000}", "\\", "\n"]).prop_map(|s| s.to_string()), 2 => gen::arb_string()].boxed()
}

fn arb_mkey() -> BoxedStrategy<MKey> {
	prop_oneof![
		5 => arb_key_text().prop_map(MKey::Lit),
		2 => arb_key_text().prop_map(MKey::Paren),
		1 => arb_key_text().prop_map(MKey::ParenString),
		2 => arb_key_text().prop_map(MKey::KeyFrom),
	]
	.boxed()
}

fn arb_scalar() -> BoxedStrategy<MNode> {
	prop_oneof![
		2 => Just(MNode::Null),
		2 => any::<bool>().prop_map(MNode::Bool),
		4 => prop_oneof![any::<i32>(), -5i32..100, Just(i32::MIN), Just(i32::MAX)].prop_map(MNode::Int),
		1 => any::<u64>().prop_map(|u| MNode::IntSuffixed(u.to_string(), "u64")),
		1 => any::<i64>().prop_map(|i| MNode::IntSuffixed(i.to_string(), "i64")),
		1 => any::<u8>().prop_map(|i| MNode::IntSuffixed(i.to_string(), "u8")),
		1 => any::<i16>().prop_map(|i| MNode::IntSuffixed(i.to_string(), "i16")),
		1 => prop::sample::select(vec![("18446744073709551615", "u64"), ("-9223372036854775808", "i64"), ("0", "u32"), ("-128", "i8"), ("4294967295", "u32")]).prop_map(|(t, s)| MNode::IntSuffixed(t.to_string(), s)),
		// stable floats: <= 15 significant digits, magnitude in [1e-4, 1e8), non-zero fraction without trailing zero
		3 => (any::<bool>(), 0u32..100_000, 1u32..9999).prop_map(|(neg, int, frac)| {
			let mut f = frac.to_string();
			while f.ends_with('0') {
				f.pop();
			}
			MNode::FloatStable(format!("{}{int}.{f}", if neg { "-" } else { "" }))
		}),
		2 => prop::sample::select(vec!["1e5", "2.5E-3", "100.0", "1e21", "1.0", "-0.0", "0.1e1", "1.7976931348623157e308", "5e-324", "123456789.123456789", "1E+2", "3.14159e0"]).prop_map(|s| MNode::FloatFree(s.to_string())),
		// f32-suffixed literals: whole numbers beyond 2^24, fractions, extremes; expected text = shortest f32 digits
		2 => prop_oneof![
			3 => any::<u32>().prop_map(|b| f32::from_bits(b)),
			2 => (16_000_000u32..4_000_000_000).prop_map(|i| i as f32),
			1 => prop::sample::select(vec![1.5f32, 0.1, 123456789.0, 2147483648.0, 16777217.0, 3e9, 1.1e10, f32::MAX, f32::MIN_POSITIVE, 1e-45, -0.0, 0.0]),
		]
		.prop_filter_map("finite", |f| if f.is_finite() { Some(MNode::FloatF32(format!("{f:?}f32"), format!("{f:?}"))) } else { None }),
		4 => gen::arb_string().prop_map(MNode::Str),
	]
	.boxed()
}

fn arb_mnode() -> BoxedStrategy<MNode> {
	let leaf = prop_oneof![8 => arb_scalar(), 1 => arb_scalar().prop_map(|s| MNode::Expr(Box::new(s)))];
	leaf.prop_recursive(5, 60, 10, |inner| {
		prop_oneof![
			5 => (proptest::collection::vec(inner.clone(), 0..=10), any::<bool>()).prop_map(|(a, t)| MNode::Arr(a, t)),
			5 => (proptest::collection::vec((arb_mkey(), inner.clone()), 0..=10), any::<bool>()).prop_map(|(o, t)| MNode::Obj(o, t)),
			1 => (proptest::collection::vec(arb_scalar(), 11..=40), any::<bool>()).prop_map(|(a, t)| MNode::Arr(a, t)),
			1 => (proptest::collection::vec((arb_mkey(), arb_scalar()), 11..=30), any::<bool>()).prop_map(|(o, t)| MNode::Obj(o, t)),
		]
	})
	.boxed()
}

const HEADER: &str = r#"#![recursion_limit = "1024"]
#![allow(unused_imports, clippy::all)]
use json_syntax::{json, object::Key, Parse, Value};

fn same(a: &Value, b: &Value, free: u8) -> bool {
	match (a, b) {
		(Value::Number(x), Value::Number(y)) => {
			if x.as_str() == y.as_str() {
				true
			} else if free >= 1 {
				let fx: f64 = x.as_str().parse().unwrap();
				let fy: f64 = y.as_str().parse().unwrap();
				if fx.to_bits() == fy.to_bits() || (fx == 0.0 && fy == 0.0) {
					return true;
				}
				// documents holding f32-suffixed literals: the number must denote the same f32
				free >= 2 && (fx as f32).to_bits() == (fy as f32).to_bits()
			} else {
				false
			}
		}
		(Value::Array(x), Value::Array(y)) => x.len() == y.len() && x.iter().zip(y).all(|(p, q)| same(p, q, free)),
		(Value::Object(x), Value::Object(y)) => x.len() == y.len() && x.iter().zip(y.iter()).all(|(p, q)| p.key == q.key && same(&p.value, &q.value, free)),
		(x, y) => x == y,
	}
}

fn check(i: usize, built: Value, text: &str, free: u8) {
	match Value::parse_str(text) {
		Ok((parsed, _)) => {
			// without free floats the crate's own equality must hold as well
			if same(&built, &parsed, free) && (free > 0 || built == parsed) {
				println!("OK {i}");
			} else {
				println!("FAIL {i} macro={} parsed={}", built, parsed);
			}
		}
		Err(e) => println!("FAIL {i} text does not parse: {e:?}"),
	}
}
"#;

pub struct Batch {
	pub docs: Vec<MNode>,
}

impl Batch {
	pub fn source(&self, per_module: usize) -> String {
		let mut s = String::from(HEADER);
		let modules = self.docs.len().div_ceil(per_module);
		for m in 0..modules {
			s.push_str(&format!("\nmod m{m} {{\n\tuse super::*;\n\tpub fn run() {{\n"));
			for i in (m * per_module)..((m + 1) * per_module).min(self.docs.len()) {
				let d = &self.docs[i];
				let mut rust = String::new();
				d.rust(&mut rust);
				let mut text = String::new();
				d.json(&mut text);
				s.push_str(&format!("\t\tcheck({i}, json!({rust}), {}, {});\n", rust_str(&text), d.float_mode()));
			}
			s.push_str("\t}\n}\n");
		}
		s.push_str("\nfn main() {\n");
		for m in 0..modules {
			s.push_str(&format!("\tm{m}::run();\n"));
		}
		s.push_str("}\n");
		s
	}
}

pub enum BatchResult {
	/// per-document verdicts: None = OK, Some(detail) = mismatch
	Ran(Vec<Option<String>>),
	CompileError(String),
	Infra(String),
}

pub fn run_batch(batch: &Batch, tag: &str) -> BatchResult {
	let dir = verif_dir().join("scratch").join(format!("c19-{tag}-{}", std::process::id()));
	let _ = std::fs::remove_dir_all(&dir);
	if let Err(e) = std::fs::create_dir_all(dir.join("src")) {
		return BatchResult::Infra(format!("cannot create {dir:?}: {e}"));
	}
	let cargo_toml = "[package]\nname = \"c19gen\"\nversion = \"0.0.0\"\nedition = \"2021\"\npublish = false\n\n[dependencies]\njson-syntax = { path = \"/repo\" }\n\n[profile.dev]\nopt-level = 0\ndebug = false\nincremental = false\n\n[workspace]\n";
	let _ = std::fs::write(dir.join("Cargo.toml"), cargo_toml);
	let _ = std::fs::copy("/repo/Cargo.lock", dir.join("Cargo.lock"));
	let _ = std::fs::write(dir.join("src").join("main.rs"), batch.source(250));
	let target = verif_dir().join("harness").join("target").join("c19");
	let out = Command::new("cargo")
		.args(["build", "--offline", "--quiet"])
		.current_dir(&dir)
		.env("CARGO_TARGET_DIR", &target)
		.env("CARGO_NET_OFFLINE", "true")
		.env_remove("RUSTFLAGS")
		.output();
	let out = match out {
		Ok(o) => o,
		Err(e) => return BatchResult::Infra(format!("cannot run cargo: {e}")),
	};
	if !out.status.success() {
		let full = String::from_utf8_lossy(&out.stderr).to_string();
		let _ = std::fs::remove_dir_all(&dir);
		// keep the errors, drop the warnings about /repo
		let err = match full.find("\nerror") {
			Some(i) => full[i + 1..].to_string(),
			None => full,
		};
		// a compile error inside json-syntax itself (mutated tree that does not build) is not ours to judge
		if err.contains("could not compile `json-syntax`") {
			return BatchResult::Infra(format!("/repo does not compile: {}", crate::framework::truncate(&err, 400)));
		}
		return BatchResult::CompileError(err);
	}
	let run = Command::new(target.join("debug").join("c19gen")).output();
	let _ = std::fs::remove_dir_all(&dir);
	let run = match run {
		Ok(r) => r,
		Err(e) => return BatchResult::Infra(format!("cannot run the generated binary: {e}")),
	};
	let stdout = String::from_utf8_lossy(&run.stdout);
	let mut verdicts: Vec<Option<String>> = vec![Some("no report (the generated program died before this document)".to_string()); batch.docs.len()];
	for line in stdout.lines() {
		let mut it = line.splitn(3, ' ');
		match (it.next(), it.next().and_then(|x| x.parse::<usize>().ok())) {
			(Some("OK"), Some(i)) if i < verdicts.len() => verdicts[i] = None,
			(Some("FAIL"), Some(i)) if i < verdicts.len() => verdicts[i] = Some(it.next().unwrap_or("").to_string()),
			_ => {}
		}
	}
	if !run.status.success() {
		let err = String::from_utf8_lossy(&run.stderr);
		for v in verdicts.iter_mut() {
			if let Some(d) = v {
				if d.starts_with("no report") {
					*d = format!("the generated program crashed: {}", crate::framework::truncate(&err, 300));
					break;
				}
			}
		}
	}
	BatchResult::Ran(verdicts)
}

fn doc_json(d: &MNode) -> J {
	let mut rust = String::new();
	d.rust(&mut rust);
	let mut text = String::new();
	d.json(&mut text);
	json!({"rust": format!("json!({rust})"), "json_text": text})
}

pub fn run(ctx: &mut Ctx) {
	ctx.begin_family("M_generated_programs");
	let (batches, per_batch) = ctx.pick((3usize, 1000usize), (30, 1000));
	let mut fam = Fam::new(
		"M_generated_programs",
		"documents (depth <= 5, <= 10 entries per container; bare i32 / negative / suffixed integer literals; stable and free float literals; strings with any character; literal, parenthesised, String and Key::from(..) keys; Value::from(..) expression values; optional trailing commas after scalars and after nested containers; duplicate keys) emitted as Rust `json!` invocations and as JSON text, compiled in one crate per 1000 against the current /repo, run: json!(..) == Value::parse_str(text).0 (free floats by f64 bits); a compile error of a generated program is a failure; non-trivial = nesting >= 2 with a trailing comma after a container or a non-literal key",
		false,
	);
	for b in 0..batches {
		let seed = seed_bytes(ctx.seed, "C19", "M_generated_programs", b as u64);
		let docs = sample_strategy(seed, &arb_mnode(), per_batch);
		let batch = Batch { docs };
		match run_batch(&batch, &format!("{}-{b}", ctx.seed)) {
			BatchResult::Ran(verdicts) => {
				for (d, v) in batch.docs.iter().zip(verdicts) {
					fam.tick();
					match v {
						None => {
							fam.class(match d.depth() {
								0 => "scalar",
								1 => "depth_1",
								2 => "depth_2",
								_ => "depth_ge3",
							});
							if d.interesting() {
								fam.nontrivial_hashed(crate::framework::hash64(&doc_json(d).to_string()));
								if fam.wants_sample() {
									fam.sample(|| doc_json(d));
								}
							}
						}
						Some(detail) => fam.fail(doc_json(d), format!("json! and parse_str disagree: {detail}"), None),
					}
				}
			}
			BatchResult::CompileError(err) => {
				// find the offending document by bisection on smaller batches
				fam.evaluations += batch.docs.len() as u64;
				let culprit = bisect_compile_error(&batch, ctx.seed);
				match culprit {
					Some(d) => fam.fail(doc_json(&d), format!("a generated json! invocation does not compile: {}", crate::framework::truncate(&err, 500)), None),
					None => fam.fail(json!({"batch": b}), format!("generated batch does not compile: {}", crate::framework::truncate(&err, 800)), None),
				}
			}
			BatchResult::Infra(m) => ctx.inconclusive.push(m),
		}
	}
	ctx.add(fam);
	ctx.assume("an f32-suffixed literal denotes an f32: the macro's number must parse to the same f32 as the literal (the unchanged crate does not always print shortest f32 digits: json!(144123800.0f32) is 144123810)");
	ctx.assume("stable floats (<= 15 significant digits, magnitude 1e-4..1e8, non-zero fraction, no trailing zero) are printed verbatim by any shortest round-trip formatter and are compared textually; other float literals by f64 bits");
}

fn bisect_compile_error(batch: &Batch, seed: u64) -> Option<MNode> {
	let mut docs = batch.docs.clone();
	let mut step = 0;
	while docs.len() > 1 && step < 12 {
		step += 1;
		let half = docs.len() / 2;
		let first = Batch { docs: docs[..half].to_vec() };
		match run_batch(&first, &format!("{seed}-bisect{step}")) {
			BatchResult::CompileError(_) => docs = first.docs,
			BatchResult::Ran(_) => docs = docs[half..].to_vec(),
			BatchResult::Infra(_) => return None,
		}
	}
	if docs.len() == 1 {
		Some(docs.remove(0))
	} else {
		None
	}
}

pub fn replay(_family: &str, case: &J) -> Result<(), String> {
	// rebuild a one-document program from the recorded source text
	let rust = case["rust"].as_str().ok_or("bad case")?;
	let text = case["json_text"].as_str().ok_or("bad case")?;
	let src = format!("{HEADER}\nfn main() {{\n\tcheck(0, {rust}, {}, 2);\n}}\n", rust_str(text));
	let dir = verif_dir().join("scratch").join(format!("c19-replay-{}", std::process::id()));
	let _ = std::fs::remove_dir_all(&dir);
	std::fs::create_dir_all(dir.join("src")).map_err(|e| e.to_string())?;
	std::fs::write(dir.join("Cargo.toml"), "[package]\nname = \"c19gen\"\nversion = \"0.0.0\"\nedition = \"2021\"\n\n[dependencies]\njson-syntax = { path = \"/repo\" }\n\n[workspace]\n").map_err(|e| e.to_string())?;
	let _ = std::fs::copy("/repo/Cargo.lock", dir.join("Cargo.lock"));
	std::fs::write(dir.join("src").join("main.rs"), src).map_err(|e| e.to_string())?;
	let target = verif_dir().join("harness").join("target").join("c19");
	let out = Command::new("cargo").args(["run", "--offline", "--quiet"]).current_dir(&dir).env("CARGO_TARGET_DIR", &target).env_remove("RUSTFLAGS").output().map_err(|e| e.to_string())?;
	let _ = std::fs::remove_dir_all(&dir);
	let stdout = String::from_utf8_lossy(&out.stdout);
	if out.status.success() && stdout.starts_with("OK 0") {
		Ok(())
	} else {
		Err(format!("{}{}", stdout, crate::framework::truncate(&String::from_utf8_lossy(&out.stderr), 600)))
	}
}
