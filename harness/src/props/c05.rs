//! C05 — code map: one exact source span and volume per fragment, in pre-order.
use crate::entry::{codemap_triples, parse_bytes_via, parse_via, strict, Ep};
use crate::framework::{dec_bytes, run_proptest, Ctx, Fam, Outcome};
use crate::gen;
use crate::parsefam::{self as pf, Acc};
use crate::refjson::{ref_parse, utf8_offsets, FragKind, RefDoc};
use crate::refvalue::RefValue;
use decoded_char::DecodedChar;
use json_syntax::{FragmentRef, Parse, Value};
use serde_json::{json, Value as J};

pub const CLASSES: &[&str] = &["not_a_valid_document", "plain", "with_empty_container", "with_escape", "with_multibyte", "with_nesting_ge2", "with_whitespace"];

/// Pre-order contents of the reference tree, aligned with `RefDoc::frags`.
pub enum Content<'a> {
	Value(&'a RefValue),
	Entry(&'a str, &'a RefValue),
	Key(&'a str),
}

pub fn preorder<'a>(v: &'a RefValue, out: &mut Vec<Content<'a>>) {
	out.push(Content::Value(v));
	match v {
		RefValue::Arr(a) => a.iter().for_each(|x| preorder(x, out)),
		RefValue::Obj(o) => {
			for (k, x) in o {
				out.push(Content::Entry(k, x));
				out.push(Content::Key(k));
				preorder(x, out);
			}
		}
		_ => {}
	}
}

const EPS: [Ep; 6] = [Ep::Str, Ep::Slice, Ep::StrWith, Ep::SliceWith, Ep::Utf8, Ep::InfallibleUtf8];

pub fn check_traversal(v: &Value, doc: &RefDoc) -> Result<(), String> {
	let mut contents = Vec::new();
	preorder(&doc.value, &mut contents);
	if contents.len() != doc.frags.len() {
		return Err("harness: reference fragment table and tree disagree".into());
	}
	let mut n = 0;
	for (i, f) in v.traverse() {
		if i != n {
			return Err(format!("traverse() yielded index {i} at position {n}"));
		}
		let c = contents.get(i).ok_or_else(|| format!("traverse() yields more than the {} fragments of the document", contents.len()))?;
		let ok = match (f, c) {
			(FragmentRef::Value(x), Content::Value(m)) => &RefValue::from_value(x) == *m,
			(FragmentRef::Entry(e), Content::Entry(k, m)) => e.key.as_str() == *k && &RefValue::from_value(&e.value) == *m,
			(FragmentRef::Key(k), Content::Key(m)) => k.as_str() == *m,
			_ => false,
		};
		if !ok {
			return Err(format!("traverse() fragment {i} is not the document's pre-order fragment {i} ({:?})", doc.frags[i]));
		}
		n += 1;
	}
	if n != contents.len() {
		return Err(format!("traverse() yielded {n} fragments, the document has {}", contents.len()));
	}
	Ok(())
}

pub fn property(text: &str, with_custom_lengths: bool) -> Result<(Vec<usize>, bool), String> {
	let chars: Vec<char> = text.chars().collect();
	let r = ref_parse(&chars, true);
	if !r.accepted_strict() {
		return Ok((vec![0], false));
	}
	let doc = r.doc.unwrap();
	let off = utf8_offsets(&chars);
	let expected: Vec<(usize, usize, usize)> = doc.frags.iter().map(|f| (off[f.start], off[f.end], f.volume)).collect();
	for ep in EPS {
		let out = if matches!(ep, Ep::Slice | Ep::SliceWith) { parse_bytes_via(ep, text.as_bytes(), strict()) } else { parse_via(ep, text, strict()) };
		let (v, cm) = out.result.map_err(|e| format!("SKIP: the parser rejected a document the reference accepts (acceptance is C01's business) [{}: {e:?}]", ep.name()))?;
		let cm = cm.unwrap();
		let got = codemap_triples(&cm);
		if got != expected {
			let i = got.iter().zip(&expected).position(|(a, b)| a != b).unwrap_or(got.len().min(expected.len()));
			return Err(format!(
				"{}: code map differs from the reference at entry {i}: got {:?}, expected {:?} (lengths {} vs {})",
				ep.name(),
				got.get(i),
				expected.get(i),
				got.len(),
				expected.len()
			));
		}
		if cm.len() != v.traverse().count() {
			return Err(format!("{}: code map has {} entries, traversal yields {}", ep.name(), cm.len(), v.traverse().count()));
		}
		if cm[0].volume != cm.len() || cm.iter().any(|(_, e)| e.volume < 1) {
			return Err(format!("{}: root volume {} != map length {} or a volume is 0", ep.name(), cm[0].volume, cm.len()));
		}
		if ep == Ep::Str {
			check_traversal(&v, &doc)?;
			// independent of the reference: each value fragment's source text re-parses to that fragment
			for ((i, f), (_, e)) in v.traverse().zip(cm.iter()) {
				let src = &text[e.span.start()..e.span.end()];
				match f {
					FragmentRef::Value(x) => {
						let again = Value::parse_str(src).map_err(|err| format!("source text {src:?} of fragment {i} does not parse: {err:?}"))?.0;
						if &again != x {
							return Err(format!("source text {src:?} of fragment {i} parses to a different value"));
						}
						if src.starts_with([' ', '\t', '\n', '\r']) || src.ends_with([' ', '\t', '\n', '\r']) {
							return Err(format!("span of fragment {i} includes surrounding whitespace: {src:?}"));
						}
					}
					FragmentRef::Key(k) => {
						let again = Value::parse_str(src).map_err(|err| format!("source text {src:?} of key fragment {i} does not parse: {err:?}"))?.0;
						if again.as_string() != Some(k.as_str()) {
							return Err(format!("source text {src:?} of key fragment {i} is not that key"));
						}
					}
					FragmentRef::Entry(_) => {
						let key = cm[i + 1].span;
						let val = cm[i + 2].span;
						let last = e.span;
						if last.start() != key.start() || last.end() != val.end() {
							return Err(format!("entry fragment {i} does not span from its key to its value"));
						}
					}
				}
			}
		}
	}
	if with_custom_lengths {
		// `parse` over DecodedChar with UTF-16 lengths and with a constant length of 3
		for mode in 0..2 {
			let len_of = |c: char| if mode == 0 { c.len_utf16() } else { 3 };
			let mut o = Vec::with_capacity(chars.len() + 1);
			let mut p = 0;
			for c in &chars {
				o.push(p);
				p += len_of(*c);
			}
			o.push(p);
			let exp: Vec<(usize, usize, usize)> = doc.frags.iter().map(|f| (o[f.start], o[f.end], f.volume)).collect();
			let res = if mode == 0 {
				Value::parse_infallible(chars.iter().map(|c| DecodedChar::from_utf16(*c)))
			} else {
				Value::parse(chars.iter().map(|c| Ok::<_, ()>(DecodedChar::new(*c, 3)))).map_err(|_| unreachable!())
			};
			let (_, cm) = res.map_err(|e: json_syntax::parse::Error| format!("SKIP: the parser rejected a document the reference accepts (acceptance is C01's business) [parse over DecodedChar: {e:?}]"))?;
			if codemap_triples(&cm) != exp {
				return Err(format!("parse over DecodedChar (length mode {mode}): code map does not follow the given character lengths"));
			}
		}
	}
	let mut classes = vec![];
	if doc.value.any(&|v| matches!(v, RefValue::Arr(a) if a.is_empty()) || matches!(v, RefValue::Obj(o) if o.is_empty())) {
		classes.push(2);
	}
	if text.contains('\\') {
		classes.push(3);
	}
	if !text.is_ascii() {
		classes.push(4);
	}
	if doc.value.depth() >= 2 {
		classes.push(5);
	}
	let nt = !classes.is_empty();
	if text.contains([' ', '\t', '\n', '\r']) {
		classes.push(6);
	}
	if classes.is_empty() {
		classes.push(1);
	}
	let _ = FragKind::Value;
	Ok((classes, nt))
}

fn checker(acc: &mut Acc, input: &[u8]) {
	let text = match std::str::from_utf8(input) {
		Ok(t) => t,
		Err(_) => return,
	};
	match property(text, false) {
		Ok((classes, nt)) => {
			for c in classes {
				acc.class(c);
			}
			if nt {
				acc.nontrivial(input);
			}
		}
		Err(m) => acc.fail(input, m),
	}
}

/// Code map of a document parsed with the flexible options (the property speaks of any successful parse).
/// Returns whether the document is strict-valid.
pub fn lenient_property(text: &str) -> Result<bool, String> {
	use json_syntax::Parse;
	let chars: Vec<char> = text.chars().collect();
	let r = ref_parse(&chars, true);
	if r.syntax_err.is_some() {
		return Err("harness: generated lenient document is not grammatical".into());
	}
	let doc = r.doc.as_ref().unwrap();
	let off = crate::refjson::utf8_offsets(&chars);
	let expected: Vec<(usize, usize, usize)> = doc.frags.iter().map(|f| (off[f.start], off[f.end], f.volume)).collect();
	let flexible = json_syntax::parse::Options::flexible();
	for (name, res) in [("parse_str_with(flexible)", Value::parse_str_with(text, flexible)), ("parse_slice_with(flexible)", Value::parse_slice_with(text.as_bytes(), flexible))] {
		let (_, cm) = res.map_err(|e| format!("SKIP: the parser rejected a document that is valid under the flexible options (C12's business) [{name}: {e:?}]"))?;
		let got = crate::entry::codemap_triples(&cm);
		if got != expected {
			let i = got.iter().zip(&expected).position(|(a, b)| a != b).unwrap_or(got.len().min(expected.len()));
			return Err(format!("{name}: code map has {} entries, the document {} fragments; first difference at entry {i}: got (start, end, volume) {:?}, the fragment is {:?}", got.len(), expected.len(), got.get(i), expected.get(i)));
		}
	}
	Ok(r.events.is_empty())
}

pub fn run(ctx: &mut Ctx) {
	let rule_nt = "non-trivial = contains an empty container, an escape, a multi-byte character or nesting >= 2";
	if ctx.wants("F1_valid_char_documents") {
		let l = ctx.pick(7, 8);
		ctx.begin_family("F1_valid_char_documents");
		let acc = pf::enum_strings(pf::F1_ALPHABET, 0, l, false, &checker);
		ctx.add(acc.into_fam("F1_valid_char_documents", &format!("every string of length <= {l} over the 18-character alphabet (which contains SP); each valid one: code map of 6 entry points == reference fragment table (start, end, volume), traversal order, span text re-parses to the fragment; {rule_nt}"), true, CLASSES, &json!({})));
	}
	if ctx.wants("F2_valid_token_documents") {
		let ntok = ctx.pick(6, 7);
		ctx.begin_family("F2_valid_token_documents");
		let mut tokens = pf::f2_tokens();
		tokens.push("\t\r".to_string());
		let acc = pf::enum_token_seqs(&tokens, ntok, &checker);
		ctx.add(acc.into_fam("F2_valid_token_documents", &format!("every sequence of <= {ntok} tokens over 17 tokens (3 of them whitespace, one string with a 2-byte character and an escape); {rule_nt}"), true, CLASSES, &json!({})));
	}
	if ctx.wants("X_lenient_documents") {
		let n = ctx.pick(40_000, 600_000);
		let fam = Fam::new("X_lenient_documents", "proptest: rendered trees with unpaired / lone surrogate escapes injected into string literals (values and keys, also right before the closing quote), parsed with the flexible options through parse_str_with and parse_slice_with: a successful parse under any options must return exactly one entry per fragment with the exact span and volume (reference fragment table); a rejection is C12's business (excluded); non-trivial = the document is not strict-valid", false);
		let fam = run_proptest(
			ctx,
			fam,
			n,
			|| (gen::arb_container_value(gen::ValueCfg { depth: 3, width: 4, dup_keys: true, big_numbers: false }), gen::arb_choices(), proptest::collection::vec((proptest::prelude::any::<u16>(), super::c12::arb_elements()), 1..=3), proptest::prelude::any::<bool>()),
			|(v, ch, inj, at_end)| {
				let text = super::c11::lenient_text(v, ch, inj, *at_end);
				match lenient_property(&text) {
					Ok(strict) => Outcome::ok(!strict, vec![if strict { "strict_valid" } else { "needs_lenient_options" }]),
					Err(m) => Outcome::fail(m),
				}
			},
			|(v, ch, inj, at_end)| {
				let mut j = crate::parsefam::case_json(super::c11::lenient_text(v, ch, inj, *at_end).as_bytes(), &json!({}));
				j["lenient"] = json!(true);
				j
			},
		);
		ctx.add(fam);
	}
	if ctx.wants("G_rendered_trees") {
		let n = ctx.pick(100_000, 1_500_000);
		let fam = Fam::new("G_rendered_trees", &format!("proptest: random tree rendered with heavy random whitespace, escapes and multi-byte characters; also `parse` over DecodedChar with UTF-16 and constant-3 character lengths; {rule_nt}"), false);
		let fam = run_proptest(
			ctx,
			fam,
			n,
			|| (gen::arb_doc_value(gen::ValueCfg::MEDIUM), gen::arb_choices()),
			|(v, ch)| {
				let text = gen::render_doc(v, ch, gen::RenderCfg { ws_max: 4, free_escapes: true });
				match property(&text, true) {
					Ok((classes, nt)) => {
						if classes == [0] {
							return Outcome::fail("harness: generated rendering rejected by the reference".into());
						}
						Outcome::ok(nt, classes.into_iter().map(|c| CLASSES[c]).collect())
					}
					Err(m) => Outcome::fail(m),
				}
			},
			|(v, ch)| pf::case_json(gen::render_doc(v, ch, gen::RenderCfg { ws_max: 4, free_escapes: true }).as_bytes(), &json!({})),
		);
		ctx.add(fam);
	}
	ctx.assume("the reference fragment table (harness/src/refjson.rs Builder) is the definition of span/volume: value = first..last significant character, entry = key start..value end");
}

pub fn replay(_family: &str, case: &J) -> Result<(), String> {
	if case["lenient"] == json!(true) {
		let text = String::from_utf8(dec_bytes(case)).map_err(|e| e.to_string())?;
		return lenient_property(&text).map(|_| ());
	}
	let input = dec_bytes(case);
	let text = String::from_utf8(input).map_err(|e| e.to_string())?;
	property(&text, true).map(|_| ())
}
