//! C06 — objects are insertion-ordered multimaps whose key index never goes stale.
use crate::framework::{guarded, guarded_with, run_proptest, Ctx, Fam, Outcome};
use crate::objquery::{check_index, check_object};
use crate::refvalue::RefValue;
use json_syntax::object::{Entry, Key};
use json_syntax::{Object, Value};
use proptest::prelude::*;
use rayon::prelude::*;
use serde_json::{json, Value as J};

pub type Model = Vec<(String, RefValue)>;

/// How a returned removal iterator is consumed.
#[derive(Clone, Copy, Debug, PartialEq, Eq)]
pub enum Mode {
	Full,
	OneThenDrop,
	DropUntouched,
}

#[derive(Clone, Debug, PartialEq)]
pub enum Op {
	Push(String, u32),
	PushFront(String, u32),
	PushEntry(String, u32),
	PushEntryFront(String, u32),
	Insert(String, u32, Mode),
	InsertFront(String, u32, Mode),
	Remove(String, Mode, bool),
	RemoveUnique(String),
	RemoveAt(usize),
	Sort,
	/// Rebuild through a bulk constructor: 0 from_vec, 1 From<Vec<Entry>>, 2 FromIterator<Entry>, 3 FromIterator<(Key, Value)>, 4 into_iter + collect
	Rebuild(u8),
	ExtendEntries(Vec<(String, u32)>),
	ExtendPairs(Vec<(String, u32)>),
	GetOrInsertWith(String, u32),
	GetMutOrInsertWithSet(String, u32, u32),
	IterMutSet(usize, u32),
	GetMutSet(String, usize, u32),
	GetUniqueMutSet(String, u32),
	/// Continue on the clone (the original is checked and dropped).
	CloneContinue,
	/// Continue on the original (the clone is checked and dropped).
	CloneKeep,
	/// `clone_from` into an independently built object that holds `n` unrelated entries, then continue on it.
	CloneFromInto(usize),
	/// `Object::canonicalize` (0) or `canonicalize_with` a shared buffer (1): values canonicalized, entries sorted by
	/// UTF-16 key order (ties by value), index rebuilt.
	Canonicalize(u8),
}

/// Value number `n`: a plain integer, except for a few structured values at the top of the range
/// (two permutations of one object, a non-canonical number spelling, an array).
fn val(n: u32) -> RefValue {
	match n {
		999 => RefValue::Obj(vec![("y".into(), RefValue::num("2")), ("x".into(), RefValue::num("1"))]),
		998 => RefValue::Obj(vec![("x".into(), RefValue::num("1")), ("y".into(), RefValue::num("2"))]),
		997 => RefValue::num("1.50e0"),
		996 => RefValue::Arr(vec![RefValue::Obj(vec![("\u{10000}".into(), RefValue::Null), ("\u{e000}".into(), RefValue::Null)])]),
		_ => RefValue::Num(n.to_string()),
	}
}

fn jv(n: u32) -> Value {
	match n {
		996..=999 => val(n).to_value(),
		_ => Value::from(n),
	}
}

/// Model of canonicalization of one value (RFC 8785 tree form).
fn canon_tree(v: &RefValue) -> RefValue {
	match v {
		// plain integers below 2^53 are their own canonical form (ECMAScript prints them without exponent);
		// everything else goes through the exact-arithmetic reference
		RefValue::Num(s) if s.len() <= 15 && s.bytes().all(|b| b.is_ascii_digit()) && (s.len() == 1 || !s.starts_with('0')) => v.clone(),
		RefValue::Num(s) => RefValue::Num(crate::refcanon::canonical_number(s).unwrap_or_else(|| s.clone())),
		RefValue::Arr(a) => RefValue::Arr(a.iter().map(canon_tree).collect()),
		RefValue::Obj(o) => {
			let mut es: Model = o.iter().map(|(k, x)| (k.clone(), canon_tree(x))).collect();
			canon_sort(&mut es);
			RefValue::Obj(es)
		}
		other => other.clone(),
	}
}

fn canon_sort(es: &mut Model) {
	// documented: sorted by key (RFC 8785: as UTF-16 code units), same key "sorted by value" (the crate's own Ord, see Sort)
	es.sort_by(|a, b| crate::refcanon::utf16_cmp(&a.0, &b.0).then_with(|| a.1.to_value().cmp(&b.1.to_value())));
}

fn same_entry(e: &Entry, m: &(String, RefValue)) -> bool {
	e.key.as_str() == m.0 && RefValue::from_value(&e.value) == m.1
}

fn same_entries(got: &[Entry], want: &[(String, RefValue)]) -> bool {
	got.len() == want.len() && got.iter().zip(want).all(|(e, m)| same_entry(e, m))
}

fn show(got: &[Entry]) -> String {
	format!("{:?}", got.iter().map(|e| (e.key.as_str().to_string(), RefValue::from_value(&e.value))).collect::<Vec<_>>())
}

/// Applies `op` to the object and to the model, comparing the operation's result.
pub fn apply(op: &Op, obj: &mut Object, model: &mut Model) -> Result<(), String> {
	match op {
		Op::Push(k, v) | Op::PushEntry(k, v) => {
			let fresh = !model.iter().any(|(mk, _)| mk == k);
			let r = if matches!(op, Op::Push(..)) { obj.push(k.as_str().into(), jv(*v)) } else { obj.push_entry(Entry::new(k.as_str().into(), jv(*v))) };
			model.push((k.clone(), val(*v)));
			if r != fresh {
				return Err(format!("{op:?} returned {r}, key was {}", if fresh { "absent" } else { "present" }));
			}
		}
		Op::PushFront(k, v) | Op::PushEntryFront(k, v) => {
			let fresh = !model.iter().any(|(mk, _)| mk == k);
			let r = if matches!(op, Op::PushFront(..)) { obj.push_front(k.as_str().into(), jv(*v)) } else { obj.push_entry_front(Entry::new(k.as_str().into(), jv(*v))) };
			model.insert(0, (k.clone(), val(*v)));
			if r != fresh {
				return Err(format!("{op:?} returned {r}, key was {}", if fresh { "absent" } else { "present" }));
			}
		}
		Op::Insert(k, v, mode) => {
			let removed: Model = model.iter().filter(|(mk, _)| mk == k).cloned().collect();
			let first = model.iter().position(|(mk, _)| mk == k);
			match first {
				Some(p) => {
					let mut i = 0;
					let mut seen = 0;
					model.retain(|(mk, _)| {
						let keep = if mk == k {
							seen += 1;
							seen == 1
						} else {
							true
						};
						i += 1;
						keep
					});
					model[p] = (k.clone(), val(*v));
				}
				None => model.push((k.clone(), val(*v))),
			}
			match obj.insert(k.as_str().into(), jv(*v)) {
				None => {
					if first.is_some() {
						return Err(format!("{op:?} returned None although the key was present"));
					}
				}
				Some(mut it) => {
					if first.is_none() {
						return Err(format!("{op:?} returned Some although the key was absent"));
					}
					match mode {
						Mode::Full => {
							let got: Vec<Entry> = it.by_ref().collect();
							if !same_entries(&got, &removed) {
								return Err(format!("{op:?} yielded {}, expected the former entries {removed:?} in order", show(&got)));
							}
						}
						Mode::OneThenDrop => {
							let got = it.next();
							if !got.as_ref().map(|e| same_entry(e, &removed[0])).unwrap_or(false) {
								return Err(format!("{op:?}: first yielded entry is not the former first entry"));
							}
						}
						Mode::DropUntouched => {}
					}
					drop(it);
				}
			}
		}
		Op::InsertFront(k, v, mode) => {
			let removed: Model = model.iter().filter(|(mk, _)| mk == k).cloned().collect();
			model.retain(|(mk, _)| mk != k);
			model.insert(0, (k.clone(), val(*v)));
			let mut it = obj.insert_front(k.as_str().into(), jv(*v));
			match mode {
				Mode::Full => {
					let got: Vec<Entry> = it.by_ref().collect();
					if !same_entries(&got, &removed) {
						return Err(format!("{op:?} yielded {}, expected the former entries {removed:?} in order", show(&got)));
					}
				}
				Mode::OneThenDrop => {
					let got = it.next();
					match (got, removed.first()) {
						(None, None) => {}
						(Some(e), Some(m)) if same_entry(&e, m) => {}
						_ => return Err(format!("{op:?}: first yielded entry is wrong")),
					}
				}
				Mode::DropUntouched => {}
			}
			drop(it);
		}
		Op::Remove(k, mode, use_key_probe) => {
			let removed: Model = model.iter().filter(|(mk, _)| mk == k).cloned().collect();
			model.retain(|(mk, _)| mk != k);
			let key: Key = k.as_str().into();
			macro_rules! consume {
				($it:expr) => {{
					let mut it = $it;
					match mode {
						Mode::Full => {
							let got: Vec<Entry> = it.by_ref().collect();
							if !same_entries(&got, &removed) {
								return Err(format!("{op:?} yielded {}, expected {removed:?} in order", show(&got)));
							}
						}
						Mode::OneThenDrop => {
							let got = it.next();
							match (got, removed.first()) {
								(None, None) => {}
								(Some(e), Some(m)) if same_entry(&e, m) => {}
								_ => return Err(format!("{op:?}: first yielded entry is wrong")),
							}
						}
						Mode::DropUntouched => {}
					}
					drop(it);
				}};
			}
			if *use_key_probe {
				consume!(obj.remove(&key));
			} else {
				consume!(obj.remove(k.as_str()));
			}
		}
		Op::RemoveUnique(k) => {
			let matching: Vec<usize> = model.iter().enumerate().filter(|(_, (mk, _))| mk == k).map(|(i, _)| i).collect();
			match (obj.remove_unique(k.as_str()), matching.len()) {
				(Ok(None), 0) => {}
				(Ok(Some(e)), 1) => {
					if !same_entry(&e, &model[matching[0]]) {
						return Err(format!("{op:?} returned the wrong entry"));
					}
					model.remove(matching[0]);
				}
				(Err(d), n) if n >= 2 => {
					if !same_entry(&d.0, &model[matching[0]]) || !same_entry(&d.1, &model[matching[1]]) {
						return Err(format!("{op:?}: Duplicate does not carry the first two entries in order"));
					}
					// only the error is documented: other keys untouched, what remains of this key is a subsequence
					let others_model: Model = model.iter().filter(|(mk, _)| mk != k).cloned().collect();
					let others_obj: Vec<&Entry> = obj.iter().filter(|e| e.key.as_str() != k).collect();
					if others_obj.len() != others_model.len() || !others_obj.iter().zip(&others_model).all(|(e, m)| same_entry(e, m)) {
						return Err(format!("{op:?} (duplicate) disturbed entries with other keys"));
					}
					let mut rest = model.iter().filter(|(mk, _)| mk == k).skip(2);
					for e in obj.iter().filter(|e| e.key.as_str() == k) {
						if !rest.by_ref().any(|m| same_entry(e, m)) {
							return Err(format!("{op:?} (duplicate): remaining entries of the key are not a subsequence of the original"));
						}
					}
					// re-synchronise the model with whatever state is left
					*model = obj.iter().map(|e| (e.key.as_str().to_string(), RefValue::from_value(&e.value))).collect();
				}
				(r, n) => return Err(format!("{op:?} returned {} with {n} matching entries", match r { Ok(None) => "Ok(None)", Ok(Some(_)) => "Ok(Some)", Err(_) => "Err(Duplicate)" })),
			}
		}
		Op::RemoveAt(i) => {
			let r = obj.remove_at(*i);
			if *i < model.len() {
				let m = model.remove(*i);
				if !r.as_ref().map(|e| same_entry(e, &m)).unwrap_or(false) {
					return Err(format!("{op:?} did not return entry {i}"));
				}
			} else if r.is_some() {
				return Err(format!("{op:?} returned an entry for an index past the end"));
			}
		}
		Op::Sort => {
			obj.sort();
			// documented: by key name (str order); entries with the same key "by value", i.e. by Value's own
			// Ord (its coherence is C14's business), so ties are broken with the crate's comparison
			model.sort_by(|a, b| a.0.as_str().cmp(b.0.as_str()).then_with(|| a.1.to_value().cmp(&b.1.to_value())));
		}
		Op::Canonicalize(how) => {
			if *how == 0 {
				obj.canonicalize()
			} else {
				let mut buffer = ryu_js::Buffer::new();
				obj.canonicalize_with(&mut buffer)
			}
			let mut es: Model = model.iter().map(|(k, x)| (k.clone(), canon_tree(x))).collect();
			canon_sort(&mut es);
			*model = es;
		}
		Op::Rebuild(route) => {
			let entries: Vec<Entry> = obj.iter().cloned().collect();
			*obj = match route {
				0 => Object::from_vec(entries),
				1 => Object::from(entries),
				2 => entries.into_iter().collect::<Object>(),
				3 => entries.into_iter().map(|e| (e.key, e.value)).collect::<Object>(),
				_ => std::mem::take(obj).into_iter().collect::<Object>(),
			};
		}
		Op::ExtendEntries(es) => {
			obj.extend(es.iter().map(|(k, v)| Entry::new(k.as_str().into(), jv(*v))));
			model.extend(es.iter().map(|(k, v)| (k.clone(), val(*v))));
		}
		Op::ExtendPairs(es) => {
			obj.extend(es.iter().map(|(k, v)| (Key::from(k.as_str()), jv(*v))));
			model.extend(es.iter().map(|(k, v)| (k.clone(), val(*v))));
		}
		Op::GetOrInsertWith(k, v) => {
			let existing = model.iter().find(|(mk, _)| mk == k).map(|(_, mv)| mv.clone());
			let mut called = false;
			let got = RefValue::from_value(obj.get_or_insert_with(k.as_str(), || {
				called = true;
				jv(*v)
			}));
			match existing {
				Some(mv) => {
					if got != mv || called {
						return Err(format!("{op:?}: returned {got:?} (closure called: {called}), the first value of the key is {mv:?}"));
					}
				}
				None => {
					model.push((k.clone(), val(*v)));
					if got != val(*v) || !called {
						return Err(format!("{op:?}: key absent, returned {got:?}"));
					}
				}
			}
		}
		Op::GetMutOrInsertWithSet(k, v, newv) => {
			let pos = model.iter().position(|(mk, _)| mk == k);
			let slot = obj.get_mut_or_insert_with(k.as_str(), || jv(*v));
			match pos {
				Some(p) => {
					if RefValue::from_value(slot) != model[p].1 {
						return Err(format!("{op:?}: did not return the first value of the key"));
					}
					*slot = jv(*newv);
					model[p].1 = val(*newv);
				}
				None => {
					if RefValue::from_value(slot) != val(*v) {
						return Err(format!("{op:?}: key absent, returned a wrong value"));
					}
					*slot = jv(*newv);
					model.push((k.clone(), val(*newv)));
				}
			}
		}
		Op::IterMutSet(i, v) => {
			let n = obj.iter_mut().count();
			if n != model.len() {
				return Err(format!("iter_mut() yields {n} items for {} entries", model.len()));
			}
			if let Some((k, slot)) = obj.iter_mut().nth(*i) {
				if k.as_str() != model[*i].0 {
					return Err(format!("iter_mut() item {i} has key {:?}, expected {:?}", k.as_str(), model[*i].0));
				}
				*slot = jv(*v);
				model[*i].1 = val(*v);
			} else if *i < model.len() {
				return Err(format!("iter_mut() has no item {i}"));
			}
		}
		Op::GetMutSet(k, nth, v) => {
			let pos: Vec<usize> = model.iter().enumerate().filter(|(_, (mk, _))| mk == k).map(|(i, _)| i).collect();
			let cnt = obj.get_mut(k.as_str()).count();
			if cnt != pos.len() {
				return Err(format!("get_mut({k:?}) yields {cnt} values, {} entries match", pos.len()));
			}
			if let Some(slot) = obj.get_mut(k.as_str()).nth(*nth) {
				if RefValue::from_value(slot) != model[pos[*nth]].1 {
					return Err(format!("get_mut({k:?}) #{nth} is not the value of entry {}", pos[*nth]));
				}
				*slot = jv(*v);
				model[pos[*nth]].1 = val(*v);
			}
		}
		Op::GetUniqueMutSet(k, v) => {
			let pos: Vec<usize> = model.iter().enumerate().filter(|(_, (mk, _))| mk == k).map(|(i, _)| i).collect();
			match (obj.get_unique_mut(k.as_str()), pos.len()) {
				(Ok(None), 0) => {}
				(Ok(Some(slot)), 1) => {
					if RefValue::from_value(slot) != model[pos[0]].1 {
						return Err(format!("get_unique_mut({k:?}) returned the wrong value"));
					}
					*slot = jv(*v);
					model[pos[0]].1 = val(*v);
				}
				(Err(d), n) if n >= 2 => {
					if !same_entry(d.0, &model[pos[0]]) || !same_entry(d.1, &model[pos[1]]) {
						return Err(format!("get_unique_mut({k:?}): Duplicate does not carry the first two entries"));
					}
				}
				(_, n) => return Err(format!("get_unique_mut({k:?}) wrong result kind with {n} matching entries")),
			}
		}
		Op::CloneFromInto(n) => {
			let mut dst = Object::new();
			for i in 0..*n {
				dst.push(format!("unrelated-{i}").as_str().into(), Value::Null);
			}
			if n % 2 == 1 {
				// an emptied destination keeps its capacity
				while dst.remove_at(0).is_some() {}
			}
			dst.clone_from(obj);
			check_index(obj).map_err(|m| format!("source after clone_from: {m}"))?;
			*obj = dst;
		}
		Op::CloneContinue | Op::CloneKeep => {
			let c = obj.clone();
			if c != *obj || c.len() != obj.len() {
				return Err("clone differs from the original".into());
			}
			check_index(&c).map_err(|m| format!("clone: {m}"))?;
			if matches!(op, Op::CloneContinue) {
				let original = std::mem::replace(obj, c);
				check_index(&original).map_err(|m| format!("original after clone: {m}"))?;
			}
		}
	}
	Ok(())
}

fn num_of(v: &RefValue) -> u64 {
	match v {
		RefValue::Num(s) => s.parse().unwrap_or(u64::MAX),
		_ => u64::MAX,
	}
}

/// Applies `op` and validates the whole observable state afterwards.
pub fn step(op: &Op, obj: &mut Object, model: &mut Model, universe: &[&str]) -> Result<(), String> {
	apply(op, obj, model)?;
	check_object(obj, model, universe).map_err(|m| format!("after {op:?}: {m}"))
}

pub fn run_history(ops: &[Op], universe: &[&str], validate_each: bool) -> Result<(Object, Model), String> {
	let mut obj = Object::new();
	let mut model: Model = vec![];
	for (i, op) in ops.iter().enumerate() {
		if validate_each {
			step(op, &mut obj, &mut model, universe).map_err(|m| format!("op #{i}: {m}"))?;
		} else {
			apply(op, &mut obj, &mut model).map_err(|m| format!("op #{i}: {m}"))?;
		}
	}
	check_object(&obj, &model, universe).map_err(|m| format!("final state: {m}"))?;
	Ok((obj, model))
}

// ---------------------------------------------------------------------------
// operation universes

const MODES: [Mode; 3] = [Mode::Full, Mode::OneThenDrop, Mode::DropUntouched];

/// Every operation instance applicable to a state with `len` entries over `keys`.
pub fn all_instances(keys: &[&str], len: usize, values: &[u32]) -> Vec<Op> {
	let mut v = vec![];
	for k in keys {
		let k = k.to_string();
		for &x in values {
			v.push(Op::Push(k.clone(), x));
			v.push(Op::PushFront(k.clone(), x));
			for m in MODES {
				v.push(Op::Insert(k.clone(), x, m));
				v.push(Op::InsertFront(k.clone(), x, m));
			}
			v.push(Op::GetOrInsertWith(k.clone(), x));
			v.push(Op::GetUniqueMutSet(k.clone(), x));
		}
		v.push(Op::PushEntry(k.clone(), values[0]));
		v.push(Op::PushEntryFront(k.clone(), values[values.len() - 1]));
		for m in MODES {
			v.push(Op::Remove(k.clone(), m, m == Mode::OneThenDrop));
		}
		v.push(Op::RemoveUnique(k.clone()));
		v.push(Op::GetMutOrInsertWithSet(k.clone(), values[0], values[values.len() - 1]));
		for nth in 0..2 {
			v.push(Op::GetMutSet(k.clone(), nth, values[nth % values.len()]));
		}
	}
	for i in 0..=len {
		v.push(Op::RemoveAt(i));
	}
	for i in 0..len {
		v.push(Op::IterMutSet(i, values[(i + 1) % values.len()]));
	}
	v.push(Op::Sort);
	v.push(Op::Canonicalize(0));
	for r in 0..5 {
		v.push(Op::Rebuild(r));
	}
	v.push(Op::ExtendEntries(vec![(keys[0].to_string(), values[0]), (keys[keys.len() - 1].to_string(), values[0])]));
	v.push(Op::ExtendPairs(vec![(keys[keys.len() - 1].to_string(), values[0]), (keys[keys.len() - 1].to_string(), values[0])]));
	v.push(Op::CloneContinue);
	v.push(Op::CloneKeep);
	v.push(Op::CloneFromInto(0));
	v.push(Op::CloneFromInto(9));
	v
}

fn op_json(op: &Op) -> J {
	json!(format!("{op:?}"))
}

pub fn ops_json(ops: &[Op]) -> J {
	json!({ "ops": ops.iter().map(enc_op).collect::<Vec<_>>(), "shown": ops.iter().map(|o| format!("{o:?}")).collect::<Vec<_>>() })
}

fn mode_n(m: Mode) -> u8 {
	match m {
		Mode::Full => 0,
		Mode::OneThenDrop => 1,
		Mode::DropUntouched => 2,
	}
}

fn enc_op(op: &Op) -> J {
	use crate::refvalue::enc_str as es;
	match op {
		Op::Push(k, v) => json!(["push", es(k), v]),
		Op::PushFront(k, v) => json!(["push_front", es(k), v]),
		Op::PushEntry(k, v) => json!(["push_entry", es(k), v]),
		Op::PushEntryFront(k, v) => json!(["push_entry_front", es(k), v]),
		Op::Insert(k, v, m) => json!(["insert", es(k), v, mode_n(*m)]),
		Op::InsertFront(k, v, m) => json!(["insert_front", es(k), v, mode_n(*m)]),
		Op::Remove(k, m, p) => json!(["remove", es(k), mode_n(*m), p]),
		Op::RemoveUnique(k) => json!(["remove_unique", es(k)]),
		Op::RemoveAt(i) => json!(["remove_at", i]),
		Op::Sort => json!(["sort"]),
		Op::Rebuild(r) => json!(["rebuild", r]),
		Op::ExtendEntries(e) => json!(["extend_entries", e.iter().map(|(k, v)| json!([es(k), v])).collect::<Vec<_>>()]),
		Op::ExtendPairs(e) => json!(["extend_pairs", e.iter().map(|(k, v)| json!([es(k), v])).collect::<Vec<_>>()]),
		Op::GetOrInsertWith(k, v) => json!(["get_or_insert_with", es(k), v]),
		Op::GetMutOrInsertWithSet(k, v, n) => json!(["get_mut_or_insert_with_set", es(k), v, n]),
		Op::IterMutSet(i, v) => json!(["iter_mut_set", i, v]),
		Op::GetMutSet(k, n, v) => json!(["get_mut_set", es(k), n, v]),
		Op::GetUniqueMutSet(k, v) => json!(["get_unique_mut_set", es(k), v]),
		Op::CloneContinue => json!(["clone_continue"]),
		Op::CloneKeep => json!(["clone_keep"]),
		Op::CloneFromInto(n) => json!(["clone_from_into", n]),
		Op::Canonicalize(h) => json!(["canonicalize", h]),
	}
}

pub fn dec_op(j: &J) -> Op {
	use crate::refvalue::dec_str as ds;
	let u = |x: &J| x.as_u64().unwrap() as u32;
	let m = |x: &J| MODES[x.as_u64().unwrap() as usize];
	let pairs = |x: &J| x.as_array().unwrap().iter().map(|p| (ds(&p[0]), u(&p[1]))).collect::<Vec<_>>();
	match j[0].as_str().unwrap() {
		"push" => Op::Push(ds(&j[1]), u(&j[2])),
		"push_front" => Op::PushFront(ds(&j[1]), u(&j[2])),
		"push_entry" => Op::PushEntry(ds(&j[1]), u(&j[2])),
		"push_entry_front" => Op::PushEntryFront(ds(&j[1]), u(&j[2])),
		"insert" => Op::Insert(ds(&j[1]), u(&j[2]), m(&j[3])),
		"insert_front" => Op::InsertFront(ds(&j[1]), u(&j[2]), m(&j[3])),
		"remove" => Op::Remove(ds(&j[1]), m(&j[2]), j[3].as_bool().unwrap()),
		"remove_unique" => Op::RemoveUnique(ds(&j[1])),
		"remove_at" => Op::RemoveAt(j[1].as_u64().unwrap() as usize),
		"sort" => Op::Sort,
		"rebuild" => Op::Rebuild(j[1].as_u64().unwrap() as u8),
		"extend_entries" => Op::ExtendEntries(pairs(&j[1])),
		"extend_pairs" => Op::ExtendPairs(pairs(&j[1])),
		"get_or_insert_with" => Op::GetOrInsertWith(ds(&j[1]), u(&j[2])),
		"get_mut_or_insert_with_set" => Op::GetMutOrInsertWithSet(ds(&j[1]), u(&j[2]), u(&j[3])),
		"iter_mut_set" => Op::IterMutSet(j[1].as_u64().unwrap() as usize, u(&j[2])),
		"get_mut_set" => Op::GetMutSet(ds(&j[1]), j[2].as_u64().unwrap() as usize, u(&j[3])),
		"get_unique_mut_set" => Op::GetUniqueMutSet(ds(&j[1]), u(&j[2])),
		"clone_continue" => Op::CloneContinue,
		"clone_keep" => Op::CloneKeep,
		"clone_from_into" => Op::CloneFromInto(j[1].as_u64().unwrap() as usize),
		"canonicalize" => Op::Canonicalize(j[1].as_u64().unwrap() as u8),
		other => panic!("unknown op {other}"),
	}
}

// ---------------------------------------------------------------------------
// H3 strategies

pub fn h3_keys() -> Vec<String> {
	let mut k: Vec<String> = vec![];
	for i in 0..24 {
		k.push(format!("k{i}"));
	}
	for i in 0..12 {
		k.push(format!("a-key-longer-than-sixteen-bytes-{i}"));
	}
	for i in 0..8 {
		k.push(format!("sixteen-bytes-x{}", (b'a' + i) as char));
	}
	k.extend(["", "\u{e9}", "\u{e9}\u{301}", "\u{10000}", "\u{e000}", "a\u{0}", "a", "A", "é", "e\u{301}", "\u{ffff}", "\u{10ffff}", " ", "\"", "\\", "/", "\n", "key", "Key", "kEy"].iter().map(|s| s.to_string()));
	k
}

pub fn arb_op(keys: Vec<String>, bias_grow: bool) -> BoxedStrategy<Op> {
	let nk = keys.len();
	let key = (0..nk).prop_map(move |i| keys[i].clone()).boxed();
	let mode = prop::sample::select(MODES.to_vec()).boxed();
	let v = prop_oneof![12 => 0u32..996, 1 => 996u32..1000].boxed();
	let grow = if bias_grow { 10 } else { 3 };
	let shrink = if bias_grow { 2 } else { 8 };
	prop_oneof![
		grow => (key.clone(), v.clone()).prop_map(|(k, x)| Op::Push(k, x)),
		grow / 2 => (key.clone(), v.clone()).prop_map(|(k, x)| Op::PushFront(k, x)),
		1 => (key.clone(), v.clone()).prop_map(|(k, x)| Op::PushEntry(k, x)),
		1 => (key.clone(), v.clone()).prop_map(|(k, x)| Op::PushEntryFront(k, x)),
		3 => (key.clone(), v.clone(), mode.clone()).prop_map(|(k, x, m)| Op::Insert(k, x, m)),
		3 => (key.clone(), v.clone(), mode.clone()).prop_map(|(k, x, m)| Op::InsertFront(k, x, m)),
		shrink => (key.clone(), mode.clone(), any::<bool>()).prop_map(|(k, m, p)| Op::Remove(k, m, p)),
		shrink / 2 => key.clone().prop_map(Op::RemoveUnique),
		shrink => (0usize..140).prop_map(Op::RemoveAt),
		1 => Just(Op::Sort),
		1 => (0u8..2).prop_map(Op::Canonicalize),
		1 => (0u8..5).prop_map(Op::Rebuild),
		1 => proptest::collection::vec((key.clone(), v.clone()), 0..6).prop_map(Op::ExtendEntries),
		1 => proptest::collection::vec((key.clone(), v.clone()), 0..6).prop_map(Op::ExtendPairs),
		2 => (key.clone(), v.clone()).prop_map(|(k, x)| Op::GetOrInsertWith(k, x)),
		1 => (key.clone(), v.clone(), v.clone()).prop_map(|(k, x, y)| Op::GetMutOrInsertWithSet(k, x, y)),
		1 => (0usize..140, v.clone()).prop_map(|(i, x)| Op::IterMutSet(i, x)),
		1 => (key.clone(), 0usize..3, v.clone()).prop_map(|(k, n, x)| Op::GetMutSet(k, n, x)),
		1 => (key.clone(), v.clone()).prop_map(|(k, x)| Op::GetUniqueMutSet(k, x)),
		1 => Just(Op::CloneContinue),
		1 => Just(Op::CloneKeep),
		1 => prop::sample::select(vec![0usize, 1, 5, 9, 40, 41, 150]).prop_map(Op::CloneFromInto),
	]
	.boxed()
}

fn arb_history(max: usize) -> BoxedStrategy<Vec<Op>> {
	let keys = h3_keys();
	(proptest::collection::vec(arb_op(keys.clone(), true), 0..max / 2), proptest::collection::vec(arb_op(keys.clone(), false), 0..max / 2), proptest::collection::vec(arb_op(keys, true), 0..max / 4))
		.prop_map(|(a, b, c)| {
			let mut v = a;
			v.extend(b);
			v.extend(c);
			v
		})
		.boxed()
}

/// Number of hashbrown resizes implied by the maximum number of distinct keys (4 -> 8 -> 16 ...).
fn growth_cycles(ops: &[Op]) -> usize {
	let mut obj: Vec<String> = vec![];
	let mut max_distinct = 0usize;
	let mut model: Model = vec![];
	let mut o = Object::new();
	for op in ops {
		if apply(op, &mut o, &mut model).is_err() {
			break;
		}
		obj.clear();
		obj.extend(model.iter().map(|(k, _)| k.clone()));
		obj.sort();
		obj.dedup();
		max_distinct = max_distinct.max(obj.len());
	}
	let mut cycles = 0;
	let mut cap = 3;
	while max_distinct > cap {
		cap = cap * 2 + 1;
		cycles += 1;
	}
	cycles
}

pub fn run(ctx: &mut Ctx) {
	// H1 — every abstract state x every operation instance
	if ctx.wants("H1_state_exhaustive") {
		ctx.begin_family("H1_state_exhaustive");
		let (keys, maxlen): (Vec<&str>, usize) = ctx.pick((vec!["a", "b"], 5), (vec!["a", "b", "c"], 6));
		let values = [0u32, 1];
		// all entry lists up to maxlen
		let nsym = keys.len() * values.len();
		let mut states: Vec<Vec<usize>> = vec![vec![]];
		let mut frontier: Vec<Vec<usize>> = vec![vec![]];
		for _ in 0..maxlen {
			let mut next = vec![];
			for s in &frontier {
				for x in 0..nsym {
					let mut t = s.clone();
					t.push(x);
					next.push(t);
				}
			}
			states.extend(next.iter().cloned());
			frontier = next;
		}
		let universe: Vec<&str> = keys.iter().copied().chain(["zz"]).collect();
		let proto = Fam::new("H1_state_exhaustive", &format!("every entry list of length <= {maxlen} over keys {keys:?} x values {values:?} ({} abstract states), each built through two routes (sequential push; reversed push_front), x every applicable operation instance (all argument values, all three consumption modes of returned iterators); after the transition: entries, operation result, full query battery and hook-dumped index vs the list model; non-trivial = a removal or front insertion on a state with >= 2 entries", states.len()), true);
		let fam = states
			.par_iter()
			.fold(
				|| proto.fresh(),
				|mut fam, s| {
					let entries: Model = s.iter().map(|x| (keys[x / values.len()].to_string(), val(values[x % values.len()]))).collect();
					let instances = all_instances(&keys, entries.len(), &values);
					for (route, op) in instances.iter().flat_map(|op| [(0, op), (1, op)]) {
						fam.tick();
						let describe = || {
							let mut ops: Vec<Op> = if route == 0 { entries.iter().map(|(k, v)| Op::Push(k.clone(), num_of(v) as u32)).collect() } else { entries.iter().rev().map(|(k, v)| Op::PushFront(k.clone(), num_of(v) as u32)).collect() };
							ops.push(op.clone());
							ops_json(&ops)
						};
						let r = guarded_with(&describe, || {
							let mut obj = Object::new();
							if route == 0 {
								for (k, v) in &entries {
									obj.push(k.as_str().into(), v.to_value());
								}
							} else {
								for (k, v) in entries.iter().rev() {
									obj.push_front(k.as_str().into(), v.to_value());
								}
							}
							let mut model = entries.clone();
							check_object(&obj, &model, &universe).map_err(|m| format!("state construction (route {route}): {m}"))?;
							step(op, &mut obj, &mut model, &universe)
						});
						match r {
							Ok(Ok(())) => {
								let interesting = matches!(op, Op::Remove(..) | Op::RemoveAt(_) | Op::RemoveUnique(_) | Op::Insert(..) | Op::InsertFront(..) | Op::PushFront(..) | Op::PushEntryFront(..));
								if interesting && entries.len() >= 2 {
									fam.nontrivial();
								}
							}
							Ok(Err(m)) | Err(m) => {
								let mut ops: Vec<Op> = if route == 0 { entries.iter().map(|(k, v)| Op::Push(k.clone(), num_of(v) as u32)).collect() } else { entries.iter().rev().map(|(k, v)| Op::PushFront(k.clone(), num_of(v) as u32)).collect() };
								ops.push(op.clone());
								fam.fail(ops_json(&ops), m, None);
							}
						}
					}
					fam
				},
			)
			.reduce(|| proto.fresh(), |mut a, b| { a.merge(b); a });
		let mut fam = fam;
		fam.sample(|| ops_json(&[Op::Push("a".into(), 0), Op::Push("b".into(), 1), Op::Push("a".into(), 1), Op::InsertFront("a".into(), 0, Mode::OneThenDrop)]));
		ctx.add(fam);
	}

	// H2 — every history from the empty object
	if ctx.wants("H2_history_exhaustive") {
		ctx.begin_family("H2_history_exhaustive");
		let depth = ctx.pick(4, 5);
		let keys = ["a", "b"];
		let universe = ["a", "b", "zz"];
		// instance universe independent of the state: RemoveAt / IterMutSet indices 0..3
		let mut instances = all_instances(&keys, 0, &[0, 1]);
		instances.retain(|o| !matches!(o, Op::RemoveAt(_)));
		for i in 0..3 {
			instances.push(Op::RemoveAt(i));
			instances.push(Op::IterMutSet(i, 1));
		}
		// keep the quick tier affordable: one Rebuild route per kind of constructor is enough in histories
		let instances: Vec<Op> = instances;
		let n_inst = instances.len();
		let proto = Fam::new("H2_history_exhaustive", &format!("every history of length <= {depth} from the empty object over {n_inst} operation instances (keys a/b, values 0/1, all operation kinds and consumption modes); the prefix tree is walked with a clone per branch and full validation after every operation, and every complete history is additionally replayed on a fresh object without clones; non-trivial = histories containing a removal or front insertion followed by another operation"), true);
		struct Walk<'a> {
			instances: &'a [Op],
			universe: &'a [&'a str],
			depth: usize,
		}
		fn rec(w: &Walk, obj: &Object, model: &Model, hist: &mut Vec<Op>, interesting: bool, fam: &mut Fam) {
			for op in w.instances {
				fam.tick();
				let mut o = obj.clone();
				let mut m = model.clone();
				hist.push(op.clone());
				let r = {
					let h: &Vec<Op> = hist;
					guarded_with(&|| ops_json(h), || step(op, &mut o, &mut m, w.universe))
				};
				match r {
					Ok(Ok(())) => {
						if interesting {
							fam.nontrivial();
						}
						let now_interesting = interesting || matches!(op, Op::Remove(..) | Op::RemoveAt(_) | Op::RemoveUnique(_) | Op::Insert(..) | Op::InsertFront(..) | Op::PushFront(..) | Op::PushEntryFront(..));
						if hist.len() < w.depth {
							rec(w, &o, &m, hist, now_interesting, fam);
						} else {
							// replay without clones
							match guarded(|| run_history(hist, w.universe, false)) {
								Ok(Ok((o2, _))) => {
									if o2 != o {
										fam.fail(ops_json(hist), "replaying the history on a fresh object gives different entries than the cloned walk".into(), None);
									}
								}
								Ok(Err(msg)) | Err(msg) => fam.fail(ops_json(hist), format!("fresh replay: {msg}"), None),
							}
						}
					}
					Ok(Err(msg)) | Err(msg) => fam.fail(ops_json(hist), msg, None),
				}
				hist.pop();
			}
		}
		let w = Walk { instances: &instances, universe: &universe, depth };
		// parallel over the first two operations
		let firsts: Vec<(usize, usize)> = (0..n_inst).flat_map(|a| (0..n_inst).map(move |b| (a, b))).collect();
		let fam = firsts
			.par_iter()
			.fold(
				|| proto.fresh(),
				|mut fam, (a, b)| {
					let mut obj = Object::new();
					let mut model: Model = vec![];
					let mut hist = vec![instances[*a].clone()];
					// first op is validated once per (a, b) pair only when b == 0 to keep counts exact
					let r = guarded(|| step(&instances[*a], &mut obj, &mut model, &universe));
					if *b == 0 {
						fam.tick();
					}
					match r {
						Ok(Ok(())) => {}
						Ok(Err(m)) | Err(m) => {
							if *b == 0 {
								fam.fail(ops_json(&hist), m, None);
							}
							return fam;
						}
					}
					let i1 = matches!(instances[*a], Op::Remove(..) | Op::RemoveAt(_) | Op::RemoveUnique(_) | Op::Insert(..) | Op::InsertFront(..) | Op::PushFront(..) | Op::PushEntryFront(..));
					fam.tick();
					hist.push(instances[*b].clone());
					let r = guarded(|| step(&instances[*b], &mut obj, &mut model, &universe));
					match r {
						Ok(Ok(())) => {
							if i1 {
								fam.nontrivial();
							}
							let i2 = i1 || matches!(instances[*b], Op::Remove(..) | Op::RemoveAt(_) | Op::RemoveUnique(_) | Op::Insert(..) | Op::InsertFront(..) | Op::PushFront(..) | Op::PushEntryFront(..));
							if w.depth > 2 {
								rec(&w, &obj, &model, &mut hist, i2, &mut fam);
							}
						}
						Ok(Err(m)) | Err(m) => fam.fail(ops_json(&hist), m, None),
					}
					fam
				},
			)
			.reduce(|| proto.fresh(), |mut a, b| { a.merge(b); a });
		let mut fam = fam;
		fam.sample(|| ops_json(&[Op::Push("a".into(), 0), Op::PushFront("a".into(), 1), Op::Remove("a".into(), Mode::OneThenDrop, true), Op::Sort]));
		ctx.add(fam);
	}

	// H3 — long random histories
	if ctx.wants("H3_long_random_histories") {
		let n = ctx.pick(2_000, 60_000);
		let keys = h3_keys();
		let fam = Fam::new("H3_long_random_histories", &format!("proptest: histories of up to 500 operations over {} keys (inline and heap keys, non-ASCII, near-duplicates), a growing phase, a shrinking phase and a second growing phase; full validation after every operation against the probe universe; non-trivial = the history forces >= 2 growth cycles of the hash index and contains a removal", keys.len()), false);
		let universe_owned: Vec<String> = keys.iter().cloned().chain(["absent".to_string()]).collect();
		let fam = run_proptest(
			ctx,
			fam,
			n,
			|| arb_history(500),
			|ops| {
				let universe: Vec<&str> = universe_owned.iter().map(|s| s.as_str()).collect();
				match run_history(ops, &universe, true) {
					Ok(_) => {
						let cycles = growth_cycles(ops);
						let has_removal = ops.iter().any(|o| matches!(o, Op::Remove(..) | Op::RemoveAt(_) | Op::RemoveUnique(_) | Op::Insert(..) | Op::InsertFront(..)));
						let mut classes = vec![];
						classes.push(match cycles {
							0 => "growth_cycles_0",
							1 => "growth_cycles_1",
							2 => "growth_cycles_2",
							3 => "growth_cycles_3",
							_ => "growth_cycles_ge4",
						});
						if ops.len() >= 100 {
							classes.push("len_ge_100");
						}
						Outcome::ok(cycles >= 2 && has_removal, classes)
					}
					Err(m) => Outcome::fail(m),
				}
			},
			|ops| ops_json(ops),
		);
		ctx.add(fam);
	}
	// H4 - many distinct keys: the index grows through 3, 7, 14, 28, 56, 112, 224, 448 buckets
	if ctx.wants("H4_many_distinct_keys") {
		let n = ctx.pick(300, 6_000);
		let keys: Vec<String> = (0..1200).map(|i| format!("key-{i}")).collect();
		let universe_owned: Vec<String> = keys.iter().step_by(7).cloned().chain(["absent".to_string()]).collect();
		let fam = Fam::new("H4_many_distinct_keys", "proptest: histories of up to 700 operations over 1200 distinct keys, growth-biased (objects reach several hundred distinct keys, i.e. up to 8 growth cycles of the hash index), then a shrinking phase; the object is validated after every 16th operation and at the end against *every* key it holds plus a sample of absent ones; non-trivial = more than 112 distinct keys were present at some point", false);
		let ks = keys.clone();
		let fam = run_proptest(
			ctx,
			fam,
			n,
			move || (proptest::collection::vec(arb_op(ks.clone(), true), 100..500), proptest::collection::vec(arb_op(ks.clone(), false), 0..200)).prop_map(|(mut a, b)| { a.extend(b); a }),
			|ops| {
				let universe: Vec<&str> = universe_owned.iter().map(|s| s.as_str()).collect();
				let mut obj = Object::new();
				let mut model: Model = vec![];
				let mut max_distinct = 0;
				for (i, op) in ops.iter().enumerate() {
					if let Err(m) = apply(op, &mut obj, &mut model) {
						return Outcome::fail(format!("op #{i}: {m}"));
					}
					if i % 16 == 15 {
						if let Err(m) = check_object(&obj, &model, &universe) {
							return Outcome::fail(format!("after op #{i} ({op:?}): {m}"));
						}
						let mut d: Vec<&str> = model.iter().map(|(k, _)| k.as_str()).collect();
						d.sort();
						d.dedup();
						max_distinct = max_distinct.max(d.len());
					}
				}
				if let Err(m) = check_object(&obj, &model, &universe) {
					return Outcome::fail(format!("final state: {m}"));
				}
				Outcome::ok(max_distinct > 112, vec![if max_distinct > 224 { "distinct_gt_224" } else if max_distinct > 112 { "distinct_113_224" } else { "distinct_le_112" }])
			},
			|ops| ops_json(ops),
		);
		ctx.add(fam);
	}
	// H5 - very few keys, long histories: dozens of duplicates per key
	if ctx.wants("H5_heavy_duplication") {
		let n = ctx.pick(1_500, 40_000);
		let keys: Vec<String> = vec!["a".into(), "b".into(), "a-key-longer-than-sixteen-bytes".into()];
		let fam = Fam::new("H5_heavy_duplication", "proptest: histories of up to 300 operations over only 3 keys, growth-biased (a key reaches dozens of duplicates), with removals through iterators in all three consumption modes, insert/insert_front collapses, sorts, clone_from; full validation after every operation; non-trivial = some key had >= 17 duplicates when a removal or collapse happened", false);
		let ks = keys.clone();
		let fam = run_proptest(
			ctx,
			fam,
			n,
			move || (proptest::collection::vec(arb_op(ks.clone(), true), 20..200), proptest::collection::vec(arb_op(ks.clone(), false), 0..100)).prop_map(|(mut a, b)| { a.extend(b); a }),
			|ops| {
				let universe = ["a", "b", "a-key-longer-than-sixteen-bytes", "zz"];
				let mut obj = Object::new();
				let mut model: Model = vec![];
				let mut heavy = false;
				for (i, op) in ops.iter().enumerate() {
					let before = universe.iter().map(|k| model.iter().filter(|(mk, _)| mk == k).count()).max().unwrap_or(0);
					if before >= 17 && matches!(op, Op::Remove(..) | Op::RemoveUnique(_) | Op::Insert(..) | Op::InsertFront(..)) {
						heavy = true;
					}
					if let Err(m) = step(op, &mut obj, &mut model, &universe) {
						return Outcome::fail(format!("op #{i}: {m}"));
					}
				}
				Outcome::ok(heavy, vec![if heavy { "removal_with_ge17_duplicates" } else { "light" }])
			},
			|ops| ops_json(ops),
		);
		ctx.add(fam);
	}
	let _ = op_json;
	ctx.assume("remove_unique on a duplicated key: only the Duplicate error, untouched other keys and 'remaining entries are a subsequence' are demanded (the rustdoc promises no more); the model is then re-synchronised");
	ctx.assume("leaking a removal iterator with mem::forget is outside the domain");
}

pub fn replay(_family: &str, case: &J) -> Result<(), String> {
	let ops: Vec<Op> = case["ops"].as_array().ok_or("no ops")?.iter().map(dec_op).collect();
	let mut keys: Vec<String> = h3_keys();
	keys.extend(["a", "b", "c", "zz", "absent"].iter().map(|s| s.to_string()));
	let universe: Vec<&str> = keys.iter().map(|s| s.as_str()).collect();
	run_history(&ops, &universe, true).map(|_| ())
}
