//! C03 — parsing is total, single-pass and uses stack independent of nesting depth.
use crate::entry::options;
use crate::framework::{dec_bytes, guarded, run_proptest, Ctx, Fam, Outcome};
use crate::parsefam::{self as pf, Acc};
use crate::refjson::{ref_parse, Leniency};
use decoded_char::DecodedChar;
use json_syntax::{Parse, Value};
use proptest::prelude::*;
use rayon::prelude::*;
use serde_json::{json, Value as J};
use std::cell::Cell;
use std::process::Command;
use std::time::{Duration, Instant};

pub const CLASSES: &[&str] = &["short_or_early_reject", "rejected_after_ge2_chars_len_gt8", "accepted", "invalid_utf8"];

struct Counting<'a, T: Copy> {
	items: &'a [T],
	idx: usize,
	polls: &'a Cell<usize>,
}

impl<'a, T: Copy> Iterator for Counting<'a, T> {
	type Item = T;
	fn next(&mut self) -> Option<T> {
		self.polls.set(self.polls.get() + 1);
		let r = self.items.get(self.idx).copied();
		if r.is_some() {
			self.idx += 1;
		}
		r
	}
}

const SLACK: usize = 16;

/// No panic and bounded polling under all four option records, through byte, str, char-iterator and
/// DecodedChar entry points (all 13 of them, `FromStr` included). The reference parse only classifies the case.
pub fn property(input: &[u8]) -> Result<(usize, bool), String> {
	let lossy: String = String::from_utf8_lossy(input).into_owned();
	let chars: Vec<char> = lossy.chars().collect();
	let valid = std::str::from_utf8(input).ok();
	let r = ref_parse(&chars, false);
	// fallible stream: Err at every ill-formed sequence
	let mut stream: Vec<Result<char, u8>> = Vec::new();
	{
		let mut rest = input;
		loop {
			match std::str::from_utf8(rest) {
				Ok(s) => {
					stream.extend(s.chars().map(Ok));
					break;
				}
				Err(e) => {
					let v = e.valid_up_to();
					stream.extend(std::str::from_utf8(&rest[..v]).unwrap().chars().map(Ok));
					stream.push(Err(rest[v]));
					let skip = e.error_len().unwrap_or(rest.len() - v);
					rest = &rest[v + skip..];
				}
			}
		}
	}
	// Only the clauses of this property are asserted: every entry point returns (no panic - the caller catches
	// unwinding -, no loop) and pulls each input item at most once. Whether the verdict is the right one is C01's
	// and C12's business and is deliberately not compared here.
	for l in Leniency::ALL {
		let o = options(l.truncated_pair, l.invalid_codepoint);
		let _ = Value::parse_slice_with(input, o);
		if let Some(text) = valid {
			let _ = Value::parse_str_with(text, o);
		}
		// counting char iterator over the (lossily decoded) character sequence
		let polls = Cell::new(0);
		let it = Counting { items: &chars, idx: 0, polls: &polls };
		let _ = Value::parse_utf8_infallible_with(it, o);
		if polls.get() > chars.len() + SLACK {
			return Err(format!("parse_utf8_infallible_with({l:?}) polled its iterator {} times for {} characters", polls.get(), chars.len()));
		}
		// fallible stream with errors at ill-formed bytes
		let polls = Cell::new(0);
		let it = Counting { items: &stream, idx: 0, polls: &polls };
		let _ = Value::parse_utf8_with(it, o);
		if polls.get() > stream.len() + SLACK {
			return Err(format!("parse_utf8_with({l:?}) polled its iterator {} times for {} items", polls.get(), stream.len()));
		}
		// DecodedChar stream with odd lengths (0..=8 bytes per character)
		let dc: Vec<DecodedChar> = chars.iter().enumerate().map(|(i, c)| DecodedChar::new(*c, (i * 7 + *c as usize) % 9)).collect();
		let polls = Cell::new(0);
		let it = Counting { items: &dc, idx: 0, polls: &polls };
		let _ = Value::parse_infallible_with(it, o);
		if polls.get() > dc.len() + SLACK {
			return Err(format!("parse_infallible_with({l:?}) polled its iterator {} times for {} characters", polls.get(), dc.len()));
		}
	}
	// the option-less entry points: FromStr, parse_str, parse_slice, parse_utf8, parse_infallible_utf8,
	// parse_infallible, parse, and parse_with over a fallible DecodedChar stream
	if let Some(text) = valid {
		let _ = text.parse::<Value>();
		let _ = Value::parse_str(text);
	}
	let _ = Value::parse_slice(input);
	let _ = Value::parse_utf8(stream.iter().copied());
	let _ = Value::parse_infallible_utf8(chars.iter().copied());
	let dc: Vec<DecodedChar> = chars.iter().map(|c| DecodedChar::new(*c, 2 * c.len_utf16())).collect();
	let _ = Value::parse_infallible(dc.iter().copied());
	let polls = Cell::new(0);
	let items: Vec<Result<DecodedChar, ()>> = dc.iter().copied().map(Ok).collect();
	let _ = Value::parse(Counting { items: &items, idx: 0, polls: &polls });
	if polls.get() > items.len() + SLACK {
		return Err(format!("parse polled its iterator {} times for {} characters", polls.get(), items.len()));
	}
	let _ = Value::parse_with(dc.iter().copied().map(Ok::<DecodedChar, ()>), options(false, false));
	let class = if valid.is_none() {
		3
	} else if r.accepted_strict() {
		2
	} else {
		match r.syntax_err {
			Some((i, _)) if i >= 2 && input.len() > 8 => 1,
			None if input.len() > 8 => 1,
			_ => 0,
		}
	};
	Ok((class, class != 0))
}

fn checker(acc: &mut Acc, input: &[u8]) {
	match property(input) {
		Ok((class, nt)) => {
			acc.class(class);
			if nt {
				acc.nontrivial(input);
			}
		}
		Err(m) => acc.fail(input, m),
	}
}

fn arb_bytes() -> BoxedStrategy<Vec<u8>> {
	let byte = prop_oneof![
		12 => prop::sample::select(b"[]{},:\"\\ \n0123456789-+.eEtrufalsn".to_vec()),
		3 => any::<u8>(),
		2 => prop::sample::select(vec![0xc2u8, 0xe2, 0xf0, 0x80, 0xbf, 0xed, 0xa0, 0xc0, 0xff, b'd', b'D', b'8', b'c']),
	];
	proptest::collection::vec(byte, 0..96).boxed()
}

// ---------------------------------------------------------------------------
// deep nesting in a small stack (child processes)

#[derive(Clone, Copy, Debug, PartialEq)]
pub enum DeepFamily {
	ArrClosed,
	ArrOpen,
	ObjClosed,
	ObjOpen,
	MixedClosed,
	TwoSiblings,
	DeepAtEndOfWide,
	DeepUnclosedKey,
	DeepStringsInside,
	/// Stack use must not grow with the *length* of anything either.
	WhitespaceRuns,
	LongString,
	LongNumber,
	WideArray,
	WideObject,
	LongStringThenError,
	/// Known finding: a *complete* deep value followed by an error.
	CompleteThenGarbage,
	CompleteInArrayThenEof,
}

pub const DEEP_FAMILIES: &[(DeepFamily, &str)] = &[
	(DeepFamily::ArrClosed, "arr_closed"),
	(DeepFamily::ArrOpen, "arr_open"),
	(DeepFamily::ObjClosed, "obj_closed"),
	(DeepFamily::ObjOpen, "obj_open"),
	(DeepFamily::MixedClosed, "mixed_closed"),
	(DeepFamily::TwoSiblings, "two_siblings"),
	(DeepFamily::DeepAtEndOfWide, "deep_at_end_of_wide"),
	(DeepFamily::DeepUnclosedKey, "deep_unclosed_key"),
	(DeepFamily::DeepStringsInside, "deep_strings_inside"),
	(DeepFamily::WhitespaceRuns, "whitespace_runs"),
	(DeepFamily::LongString, "long_string"),
	(DeepFamily::LongNumber, "long_number"),
	(DeepFamily::WideArray, "wide_array"),
	(DeepFamily::WideObject, "wide_object"),
	(DeepFamily::LongStringThenError, "long_string_then_error"),
	(DeepFamily::CompleteThenGarbage, "complete_then_garbage"),
	(DeepFamily::CompleteInArrayThenEof, "complete_in_array_then_eof"),
];

pub const KNOWN_DEEP_DROP: &str = "deep_value_drop_on_error_path";

impl DeepFamily {
	pub fn by_name(n: &str) -> Option<DeepFamily> {
		DEEP_FAMILIES.iter().find(|(_, s)| *s == n).map(|(f, _)| *f)
	}
	pub fn name(self) -> &'static str {
		DEEP_FAMILIES.iter().find(|(f, _)| *f == self).unwrap().1
	}
	/// (text, expected: Ok(fragment count) | Err(byte offset, char))
	pub fn build(self, n: usize) -> (String, Result<usize, (usize, Option<char>)>) {
		let rep = |s: &str, k: usize| s.repeat(k);
		match self {
			DeepFamily::ArrClosed => (format!("{}{}", rep("[", n), rep("]", n)), Ok(n)),
			DeepFamily::ArrOpen => (rep("[", n), Err((n, None))),
			DeepFamily::ObjClosed => (format!("{}1{}", rep("{\"a\":", n), rep("}", n)), Ok(3 * n + 1)),
			DeepFamily::ObjOpen => (rep("{\"a\":", n), Err((5 * n, None))),
			DeepFamily::MixedClosed => (format!("{}1{}", rep("[{\"a\":", n), rep("}]", n)), Ok(4 * n + 1)),
			DeepFamily::TwoSiblings => (format!("[{}{},{}{}]", rep("[", n), rep("]", n), rep("[", n), rep("]", n)), Ok(2 * n + 1)),
			DeepFamily::DeepAtEndOfWide => (format!("[{}{}{}]", rep("1,", 1000), rep("[", n), rep("]", n)), Ok(1 + 1000 + n)),
			DeepFamily::DeepUnclosedKey => {
				let t = format!("{}{{\"b\"", rep("{\"a\":", n));
				let l = t.len();
				(t, Err((l, None)))
			}
			DeepFamily::DeepStringsInside => (format!("{}\"\u{e9}\\n\"{}", rep("[ ", n), rep(" ]", n)), Ok(n + 1)),
			DeepFamily::WhitespaceRuns => (format!("{}[{}1{},{}2{}]{}", rep(" ", n), rep("\n", n), rep("\t", n), rep("\r", n), rep(" ", n), rep(" \n", n)), Ok(3)),
			DeepFamily::LongString => (format!("[\"{}\"]", rep("a\\n\u{e9}\\u0041", n)), Ok(2)),
			DeepFamily::LongNumber => (format!("[-{}.{}e-{}]", rep("7", n), rep("3", n), "9"), Ok(2)),
			DeepFamily::WideArray => (format!("[{}0]", rep("1,", n)), Ok(n + 2)),
			DeepFamily::WideObject => (format!("{{{}\"z\":0}}", rep("\"k\":[],", n)), Ok(3 * n + 4)),
			DeepFamily::LongStringThenError => {
				let t = format!("[\"{}\" x", rep("ab", n));
				let l = t.len() - 1;
				(t, Err((l, Some('x'))))
			}
			DeepFamily::CompleteThenGarbage => (format!("{}{}x", rep("[", n), rep("]", n)), Err((2 * n, Some('x')))),
			DeepFamily::CompleteInArrayThenEof => {
				let t = format!("[{}{},", rep("[", n), rep("]", n));
				let l = t.len();
				(t, Err((l, None)))
			}
		}
	}
	pub fn is_known_finding_shape(self) -> bool {
		matches!(self, DeepFamily::CompleteThenGarbage | DeepFamily::CompleteInArrayThenEof)
	}
}

/// Runs inside the child process. Exit 0 = the parser (and the traversals) returned; 3 = panic in the parser thread;
/// a stack overflow or abort kills the process with a signal.
pub fn child_deep(args: &[String]) -> i32 {
	let fam = DeepFamily::by_name(&args[0]).expect("family");
	let n: usize = args[1].parse().expect("n");
	let opt: usize = args[2].parse().expect("options");
	let stack_kib: usize = args[3].parse().expect("stack");
	let (text, expected) = fam.build(n);
	let l = Leniency::ALL[opt];
	let o = options(l.truncated_pair, l.invalid_codepoint);
	let handle = std::thread::Builder::new()
		.stack_size(stack_kib * 1024)
		.spawn(move || -> Result<String, String> {
			let res = Value::parse_str_with(&text, o);
			match (res, expected) {
				(Ok((v, cm)), Ok(frags)) => {
					let count = v.traverse().count();
					let vol = v.volume();
					let cml = cm.len();
					let root_volume = cm[0].volume;
					let strings = v.count(|_, f| f.is_string());
					// dropping a deep value is recursive and not what the property is about
					std::mem::forget(v);
					if count != frags || cml != frags || root_volume != frags {
						return Err(format!("traverse().count()={count}, code map length={cml}, root volume={root_volume}, expected {frags} fragments"));
					}
					Ok(format!("fragments={count} values={vol} strings={strings}"))
				}
				(Err(e), Err((p, c))) => match e {
					json_syntax::parse::Error::Unexpected(q, d) if q == p && d == c => Ok(format!("error at {q}")),
					other => Err(format!("expected Unexpected({p}, {c:?}), got {other:?}")),
				},
				(Ok((v, _)), Err(e)) => {
					std::mem::forget(v);
					Err(format!("accepted, expected error {e:?}"))
				}
				(Err(e), Ok(_)) => Err(format!("rejected a valid document: {e:?}")),
			}
		})
		.expect("spawn");
	match handle.join() {
		Ok(Ok(m)) => {
			println!("OK {m}");
			0
		}
		Ok(Err(m)) => {
			// the parser returned, inside the small stack: that is all this property asks. A wrong verdict, offset or
			// fragment count is reported by the properties that own those clauses (C01, C07, C05), not here.
			println!("OK returned-with-a-result-other-properties-judge: {m}");
			0
		}
		Err(_) => {
			println!("MISMATCH panic in the parser thread");
			3
		}
	}
}

pub struct ChildResult {
	pub ok: bool,
	pub inconclusive: bool,
	pub detail: String,
}

pub fn run_child(fam: DeepFamily, n: usize, opt: usize, stack_kib: usize, timeout: Duration) -> ChildResult {
	let exe = std::env::current_exe().expect("exe");
	let mut child = Command::new(exe)
		.args(["child", "deep", fam.name(), &n.to_string(), &opt.to_string(), &stack_kib.to_string()])
		.stdout(std::process::Stdio::piped())
		.stderr(std::process::Stdio::null())
		.spawn()
		.expect("spawn child");
	let t0 = Instant::now();
	loop {
		match child.try_wait().expect("wait") {
			Some(status) => {
				use std::io::Read;
				use std::os::unix::process::ExitStatusExt;
				let mut out = String::new();
				if let Some(mut s) = child.stdout.take() {
					let _ = s.read_to_string(&mut out);
				}
				return match (status.code(), status.signal()) {
					(Some(0), _) => ChildResult { ok: true, inconclusive: false, detail: out.trim().to_string() },
					(Some(c), _) => ChildResult { ok: false, inconclusive: false, detail: format!("exit {c}: {}", out.trim()) },
					(None, Some(9)) => ChildResult { ok: false, inconclusive: true, detail: "killed (SIGKILL; out of memory?)".into() },
					(None, Some(s)) => ChildResult { ok: false, inconclusive: false, detail: format!("process died with signal {s} (stack overflow / abort) inside a {stack_kib} KiB stack") },
					_ => ChildResult { ok: false, inconclusive: true, detail: "unknown exit".into() },
				};
			}
			None => {
				if t0.elapsed() > timeout {
					let _ = child.kill();
					let _ = child.wait();
					return ChildResult { ok: false, inconclusive: true, detail: format!("watchdog after {}s", timeout.as_secs()) };
				}
				std::thread::sleep(Duration::from_millis(5));
			}
		}
	}
}

pub const STACK_KIB: usize = 128;

pub fn run(ctx: &mut Ctx) {
	if ctx.wants("P1_random_bytes") {
		let n = ctx.pick(150_000, 3_000_000);
		let fam = Fam::new("P1_random_bytes", "proptest: byte vectors of length < 96 biased to JSON punctuation and UTF-8 lead/continuation bytes; each under all 4 option records through parse_slice_with, parse_str_with, parse_utf8_infallible_with / parse_utf8_with over a counting iterator (poll budget = items + 16) and parse_infallible_with over DecodedChar with odd lengths, then the nine option-less entry points (FromStr, parse_str, parse_slice, parse_utf8, parse_infallible_utf8, parse_infallible, parse, parse_with); no panic, no over-polling (verdicts are C01's business and are not compared); non-trivial = longer than 8 bytes and not rejected within the first 2 characters", false);
		let fam = run_proptest(
			ctx,
			fam,
			n,
			arb_bytes,
			|b| match property(b) {
				Ok((class, nt)) => Outcome::ok(nt, vec![CLASSES[class]]),
				Err(m) => Outcome::fail(m),
			},
			|b| pf::case_json(b, &json!({})),
		);
		ctx.add(fam);
	}
	if ctx.wants("P2_corpus_prefixes_and_edits") {
		ctx.begin_family("P2_corpus_prefixes_and_edits");
		let corpus = pf::load_corpus(ctx, 40);
		let all256: Vec<u8> = (0u16..256).map(|b| b as u8).collect();
		let probes: &[u8] = if ctx.quick() { &pf::PROBE_BYTES[..12] } else { &all256 };
		let acc = pf::corpus_edits(&corpus, probes, &checker);
		ctx.add(acc.into_fam("P2_corpus_prefixes_and_edits", &format!("every prefix and every single-byte deletion/insertion/replacement ({} probe bytes) of {} corpus documents, same battery as P1", probes.len(), corpus.len()), false, CLASSES, &json!({})));
	}
	if ctx.wants("P3_token_sequences") {
		ctx.begin_family("P3_token_sequences");
		let ntok = ctx.pick(4, 5);
		let mut tokens = pf::f2_tokens();
		tokens.extend(super::c07::surrogate_tokens());
		let acc = pf::enum_token_seqs(&tokens, ntok, &checker);
		ctx.add(acc.into_fam("P3_token_sequences", &format!("every sequence of <= {ntok} tokens over 20 tokens, same battery"), true, CLASSES, &json!({})));
	}
	if ctx.wants("S_surrogate_sequences") {
		ctx.begin_family("S_surrogate_sequences");
		let l = ctx.pick(4, 5);
		let inputs = super::c12::element_sequences(l);
		let acc = pf::run_list(&inputs, false, &checker);
		ctx.add(acc.into_fam("S_surrogate_sequences", &format!("every sequence of 1..={l} string elements from {:?} as value, key and array item, same battery (all four option records, every entry point kind): no panic, poll budget", super::c12::ELEMENTS), true, CLASSES, &json!({})));
	}
	if ctx.wants("D_deep_nesting") {
		ctx.begin_family("D_deep_nesting");
		let depths: Vec<usize> = if ctx.quick() { vec![1_000, 100_000, 1_000_000] } else { vec![1_000, 10_000, 100_000, 1_000_000, 2_000_000] };
		let mut configs = vec![];
		for (f, _) in DEEP_FAMILIES {
			let length_family = matches!(f, DeepFamily::WhitespaceRuns | DeepFamily::LongString | DeepFamily::LongNumber | DeepFamily::WideArray | DeepFamily::WideObject | DeepFamily::LongStringThenError);
			for &n in &depths {
				// per-element recursion overflows 128 KiB after a few thousand elements: 10^5 is plenty in the quick tier
				if length_family && ctx.quick() && n > 100_000 {
					continue;
				}
				for opt in [0usize, 3] {
					if opt == 3 && n != depths[depths.len() - 1] {
						continue;
					}
					configs.push((*f, n, opt));
				}
			}
		}
		let pool = rayon::ThreadPoolBuilder::new().num_threads(4).build().unwrap();
		let results: Vec<((DeepFamily, usize, usize), ChildResult)> = pool.install(|| configs.par_iter().map(|c| (*c, run_child(c.0, c.1, c.2, STACK_KIB, Duration::from_secs(120)))).collect());
		let mut fam = Fam::new(
			"D_deep_nesting",
			&format!("child processes parsing in a thread with a {STACK_KIB} KiB stack: families {:?} at depths {depths:?} (strict; flexible at the largest depth); the child must return (no stack overflow, abort, panic or watchdog); on success traverse().count(), volume(), count() run in the same small stack; verdicts and counts are printed but judged by C01/C05/C07, not here; every run is non-trivial", DEEP_FAMILIES.iter().map(|x| x.1).collect::<Vec<_>>()),
			true,
		);
		for ((f, n, opt), r) in results {
			fam.tick();
			fam.class(f.name());
			let case = json!({"deep_family": f.name(), "depth": n, "options": opt, "stack_kib": STACK_KIB});
			if r.ok {
				fam.nontrivial();
				if fam.samples.len() < 4 && n >= 100_000 {
					fam.samples.push(json!({"case": case, "result": r.detail}));
				}
			} else if r.inconclusive {
				ctx.inconclusive.push(format!("deep nesting child {f:?} n={n}: {}", r.detail));
			} else {
				let sig = if f.is_known_finding_shape() && r.detail.contains("signal") { Some(KNOWN_DEEP_DROP.to_string()) } else { None };
				fam.fail(case, format!("{} depth {n}: {}", f.name(), r.detail), sig);
			}
		}
		ctx.add(fam);
	}
	ctx.assume("a recursive parser or traversal needs well over 128 KiB at depth 10^5..10^6, so passing inside the small stack is not luck");
	ctx.assume("dropping a deep Value on the success path is outside the property (the child forgets it); dropping one on the parser's own error path is inside");
}

pub fn replay(family: &str, case: &J) -> Result<(), String> {
	if family == "D_deep_nesting" {
		let f = DeepFamily::by_name(case["deep_family"].as_str().unwrap()).unwrap();
		let r = run_child(f, case["depth"].as_u64().unwrap() as usize, case["options"].as_u64().unwrap() as usize, case["stack_kib"].as_u64().unwrap() as usize, Duration::from_secs(300));
		return if r.ok { Ok(()) } else { Err(r.detail) };
	}
	let input = dec_bytes(case);
	guarded(|| property(&input))?.map(|_| ())
}
