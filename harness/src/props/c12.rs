//! C12 — lenient options are a conservative extension relaxing only surrogate escapes.
use crate::entry::{codemap_triples, options, parse_via, Ep, WITH_EPS};
use crate::framework::{dec_bytes, run_proptest, Ctx, Fam, Outcome};
use crate::gen;
use crate::parsefam::{self as pf, Acc};
use crate::refjson::{ref_parse, utf8_offsets, FragKind, Leniency};
use crate::refvalue::RefValue;
use proptest::prelude::*;
use serde_json::{json, Value as J};

pub const CLASSES: &[&str] = &["rejected_by_all", "accepted_by_all(strict-valid)", "accepted_by_some_records_only", "syntax_invalid_with_surrogate_events", "ill_formed_utf8_rejected_by_all"];

const TWO_EPS: [Ep; 2] = [Ep::StrWith, Ep::SliceWith];

pub fn property(text: &str, eps: &[Ep]) -> Result<(usize, bool), String> {
	let chars: Vec<char> = text.chars().collect();
	let r = ref_parse(&chars, true);
	let off = utf8_offsets(&chars);
	let expected_map: Option<Vec<(usize, usize, usize)>> = r.doc.as_ref().map(|d| d.frags.iter().map(|f| (off[f.start], off[f.end], f.volume)).collect());
	let mut accepted = 0;
	for l in Leniency::ALL {
		let exp = r.accepted(l);
		if exp {
			accepted += 1;
		}
		let o = options(l.truncated_pair, l.invalid_codepoint);
		for &ep in eps {
			let out = parse_via(ep, text, o);
			match out.result {
				Ok((v, cm)) => {
					if !exp {
						let why = match r.syntax_err {
							Some(e) => format!("syntax error {e:?}"),
							None => format!("{:?} is not permitted by this record", r.first_offence(l)),
						};
						return Err(format!("{} with {l:?} accepted a document it must reject ({why})", ep.name()));
					}
					let doc = r.doc.as_ref().unwrap();
					let got = RefValue::from_value(&v);
					if got != doc.value {
						return Err(format!("{} with {l:?} decoded {:?}, expected {:?} (one U+FFFD per unpaired/lone surrogate escape, pairs combined)", ep.name(), got, doc.value));
					}
					if let (Some(cm), Some(em)) = (cm, &expected_map) {
						if &codemap_triples(&cm) != em {
							return Err(format!("{} with {l:?}: code map differs from the reference (and hence from the strict one)", ep.name()));
						}
					}
				}
				Err(e) => {
					if exp {
						return Err(format!("{} with {l:?} rejected ({e:?}) a document whose only deviations are permitted surrogate escapes {:?}", ep.name(), r.events));
					}
				}
			}
		}
	}
	let _ = FragKind::Value;
	Ok(match accepted {
		0 => {
			if r.events.is_empty() {
				(0, false)
			} else {
				(3, true)
			}
		}
		4 => (1, false),
		_ => (2, true),
	})
}

fn checker<'a>(eps: &'a [Ep]) -> impl Fn(&mut Acc, &[u8]) + Sync + 'a {
	checker_nt(eps, false)
}

/// `strict_valid_counts`: also count strict-valid documents as non-trivial
/// (first clause of the property: identical value and code map under every record).
fn checker_nt<'a>(eps: &'a [Ep], strict_valid_counts: bool) -> impl Fn(&mut Acc, &[u8]) + Sync + 'a {
	move |acc, input| {
		let text = match std::str::from_utf8(input) {
			Ok(t) => t,
			Err(_) => {
				// ill-formed UTF-8 is not among the deviations the lenient options permit: every record must reject it
				for l in Leniency::ALL {
					let o = options(l.truncated_pair, l.invalid_codepoint);
					if <json_syntax::Value as json_syntax::Parse>::parse_slice_with(input, o).is_ok() {
						return acc.fail(input, format!("parse_slice_with with {l:?} accepted ill-formed UTF-8"));
					}
				}
				acc.class(4);
				return;
			}
		};
		match property(text, eps) {
			Ok((class, nt)) => {
				acc.class(class);
				if nt || (strict_valid_counts && class == 1) {
					acc.nontrivial(input);
				}
			}
			Err(m) => acc.fail(input, m),
		}
	}
}

pub const ELEMENTS: [&str; 9] = ["\\uD800", "\\uDBFF", "\\uDC00", "\\uDFFF", "\\n", "a", "\\uE000", "\\uFFFF", "\\u0041"];

pub fn element_sequences(max_len: usize) -> Vec<Vec<u8>> {
	let mut out: Vec<Vec<u8>> = vec![];
	let mut frontier: Vec<String> = vec![String::new()];
	for _ in 0..max_len {
		let mut next = vec![];
		for p in &frontier {
			for e in ELEMENTS {
				next.push(format!("{p}{e}"));
			}
		}
		for body in &next {
			out.push(format!("\"{body}\"").into_bytes());
			out.push(format!("{{\"{body}\":0}}").into_bytes());
			out.push(format!("[1,\"{body}\"]").into_bytes());
		}
		frontier = next;
	}
	out
}

/// Strategy for string-element sequences biased to surrogate escapes.
pub fn arb_elements() -> BoxedStrategy<String> {
	let elem = prop_oneof![
		3 => (0xD800u32..0xDC00).prop_map(|u| format!("\\u{u:04X}")),
		3 => (0xDC00u32..0xE000).prop_map(|u| format!("\\u{u:04x}")),
		1 => Just("\\n".to_string()),
		1 => Just("\\u0041".to_string()),
		1 => Just("x".to_string()),
		1 => Just("\u{10000}".to_string()),
	];
	proptest::collection::vec(elem, 1..5).prop_map(|v| v.concat()).boxed()
}

/// Inserts each element sequence right after the opening quote of a string
/// literal of `text` chosen by the selector.
pub fn inject(text: &str, inj: &[(u16, String)]) -> String {
	let chars: Vec<char> = text.chars().collect();
	let r = ref_parse(&chars, true);
	let doc = match r.doc {
		Some(d) => d,
		None => return text.to_string(),
	};
	let strings: Vec<usize> = doc.frags.iter().filter(|f| chars[f.start] == '"' && f.kind != FragKind::Entry).map(|f| f.start).collect();
	if strings.is_empty() {
		return text.to_string();
	}
	let mut inserts: Vec<(usize, &str)> = inj.iter().map(|(sel, s)| (strings[gen::map_index(*sel, strings.len())] + 1, s.as_str())).collect();
	inserts.sort_by_key(|x| x.0);
	let mut out = String::new();
	let mut k = 0;
	for (i, c) in chars.iter().enumerate() {
		while k < inserts.len() && inserts[k].0 == i {
			out.push_str(inserts[k].1);
			k += 1;
		}
		out.push(*c);
	}
	out
}

pub fn run(ctx: &mut Ctx) {
	let rule_nt = "non-trivial = accepted under some but not all of the four option records (or syntax-invalid with surrogate events)";
	if ctx.wants("S_surrogate_sequences") {
		let l = ctx.pick(5, 6);
		ctx.begin_family("S_surrogate_sequences");
		let inputs = element_sequences(l);
		let c = checker(&WITH_EPS);
		let acc = pf::run_list(&inputs, false, &c);
		ctx.add(acc.into_fam("S_surrogate_sequences", &format!("every sequence of 1..={l} string elements from {ELEMENTS:?} as string value, object key and array item, under all 4 option records through the 6 *_with entry points: accepted <=> reference (unpaired high needs accept_truncated_surrogate_pair, lone low needs accept_invalid_codepoints), decoded text and code map == reference; {rule_nt}"), true, CLASSES, &json!({})));
	}
	if ctx.wants("F2_tokens") {
		let ntok = ctx.pick(5, 6);
		ctx.begin_family("F2_tokens");
		let mut tokens = pf::f2_tokens();
		tokens.extend(super::c07::surrogate_tokens());
		let c = checker(&TWO_EPS);
		let acc = pf::enum_token_seqs(&tokens, ntok, &c);
		ctx.add(acc.into_fam("F2_tokens", &format!("every sequence of <= {ntok} tokens from the 16 C01 tokens + 4 surrogate-escape strings, under all 4 option records; {rule_nt}"), true, CLASSES, &json!({})));
	}
	if ctx.wants("F1_chars") {
		let l = ctx.pick(6, 7);
		ctx.begin_family("F1_chars");
		let c = checker_nt(&TWO_EPS, true);
		let acc = pf::enum_strings(pf::F1_ALPHABET, 0, l, false, &c);
		ctx.add(acc.into_fam("F1_chars", &format!("every string of length <= {l} over the 18-character alphabet under all 4 option records (no surrogate escape is expressible: all four records must agree with strict mode, value and code map included; non-trivial here = strict-valid documents)"), true, CLASSES, &json!({})));
	}
	if ctx.wants("F3_transition_cover") {
		ctx.begin_family("F3_transition_cover");
		let numlen = ctx.pick(4, 6);
		let inputs: Vec<Vec<u8>> = pf::f3_inputs(numlen).into_iter().map(String::into_bytes).collect();
		let c = checker(&WITH_EPS);
		let acc = pf::run_list(&inputs, true, &c);
		ctx.add(acc.into_fam("F3_transition_cover", &format!("C01's transition cover (string prefixes include pending high surrogates) under all 4 option records; {rule_nt}"), true, CLASSES, &json!({})));
	}
	if ctx.wants("F4_corpus_byte_edits") {
		let corpus = pf::load_corpus(ctx, 40);
		ctx.begin_family("F4_corpus_byte_edits");
		let c = checker(&TWO_EPS);
		let probes: &[u8] = if ctx.quick() { b"\"\\uDdCc8]}\xff\x80\xc3\xed" } else { pf::PROBE_BYTES };
		let acc = pf::corpus_edits(&corpus, probes, &c);
		ctx.add(acc.into_fam("F4_corpus_byte_edits", &format!("corpus documents (JSONTestSuite incl. its surrogate cases + generated) with single-byte edits ({} probe bytes) under all 4 option records; {rule_nt}", probes.len()), false, CLASSES, &json!({})));
	}
	if ctx.wants("F5_injected_surrogates") {
		let n = ctx.pick(30_000, 600_000);
		let fam = Fam::new("F5_injected_surrogates", &format!("proptest: random rendered tree with 1..=3 random sequences of surrogate/ordinary escapes injected at the start of randomly chosen string literals (keys included), plus 0..=1 character mutation; all 4 option records, 6 entry points; {rule_nt}"), false);
		let fam = run_proptest(
			ctx,
			fam,
			n,
			|| {
				(
					prop_oneof![8 => gen::arb_value(gen::ValueCfg::SMALL), 1 => gen::arb_large_value(true)],
					gen::arb_choices(),
					proptest::collection::vec((any::<u16>(), arb_elements()), 1..=3),
					proptest::collection::vec(gen::arb_mutation(), 0..=1),
				)
			},
			|(v, ch, inj, muts)| {
				let text = f5_text(v, ch, inj, muts);
				match property(&text, &WITH_EPS) {
					Ok((class, nt)) => Outcome::ok(nt, vec![CLASSES[class]]),
					Err(m) => Outcome::fail(m),
				}
			},
			|(v, ch, inj, muts)| pf::case_json(f5_text(v, ch, inj, muts).as_bytes(), &json!({})),
		);
		ctx.add(fam);
	}
	ctx.assume("'accepts' is read as 'accepts exactly' (<=>), following the rustdoc of parse::Options");
}

fn f5_text(v: &RefValue, ch: &[u8], inj: &[(u16, String)], muts: &[gen::Mutation]) -> String {
	let text = gen::render_doc(v, ch, gen::RenderCfg::FREE);
	let text = inject(&text, inj);
	let mut chars: Vec<char> = text.chars().collect();
	for m in muts {
		gen::apply_mutation(&mut chars, m);
	}
	chars.into_iter().collect()
}

pub fn replay(_family: &str, case: &J) -> Result<(), String> {
	let input = dec_bytes(case);
	let text = match String::from_utf8(input) {
		Ok(t) => t,
		Err(e) => {
			// same clause as in the families: ill-formed UTF-8 must be rejected under every option record
			for l in Leniency::ALL {
				let o = options(l.truncated_pair, l.invalid_codepoint);
				if <json_syntax::Value as json_syntax::Parse>::parse_slice_with(e.as_bytes(), o).is_ok() {
					return Err(format!("parse_slice_with with {l:?} accepted ill-formed UTF-8"));
				}
			}
			return Ok(());
		}
	};
	property(&text, &WITH_EPS).map(|_| ())
}
