//! C04 — printing round-trips: any value under any print options re-parses to itself.
use super::printing::*;
use crate::framework::{run_proptest, Ctx, Fam, Outcome};
use crate::gen;
use crate::refjson::{ref_parse, strip_insignificant_ws};
use crate::refprint;
use crate::refvalue::RefValue;
use json_syntax::{Parse, Value};
use proptest::prelude::*;
use rayon::prelude::*;
use serde_json::Value as J;

pub fn property(v: &RefValue, oc: &OptCase, route: bool) -> Result<(), String> {
	let value = build(v, route);
	let text = oc.print(&value);
	let chars: Vec<char> = text.chars().collect();
	let r = ref_parse(&chars, true);
	if !r.accepted_strict() {
		return Err(format!("printed text is not a strict RFC 8259 document (reference: {:?}, {} surrogate events): {text:?}", r.syntax_err, r.events.len()));
	}
	let doc = r.doc.unwrap();
	if &doc.value != v {
		return Err(format!("printed text {text:?} denotes {:?}, the value was {:?}", doc.value, v));
	}
	let (back, _) = Value::parse_str(&text).map_err(|e| format!("printed text does not re-parse: {e:?} in {text:?}"))?;
	if back != value {
		return Err(format!("re-parsing the printed text {text:?} gives a different value"));
	}
	let stripped = strip_insignificant_ws(&text).ok_or("harness: strip failed")?;
	let compact = refprint::compact(v);
	if stripped != compact {
		return Err(format!("options changed more than insignificant whitespace: stripped output {stripped:?}, compact form {compact:?}"));
	}
	Ok(())
}

/// Post-processing of a constructed value through the public mutating API (the value that gets printed
/// is then whatever the accessors read back).
pub fn postprocess(value: &mut Value, op: u8) -> &'static str {
	fn each(v: &mut Value, f: &mut dyn FnMut(&mut Value)) {
		f(v);
		match v {
			Value::Array(a) => a.iter_mut().for_each(|x| each(x, f)),
			Value::Object(o) => o.iter_mut().for_each(|e| each(e.1, f)),
			_ => {}
		}
	}
	match op % 5 {
		0 => {
			value.canonicalize();
			"canonicalize"
		}
		1 => {
			let mut buffer = ryu_js::Buffer::new();
			value.canonicalize_with(&mut buffer);
			value.canonicalize_with(&mut buffer);
			"canonicalize_with_twice"
		}
		2 => {
			each(value, &mut |v| {
				if let Some(o) = v.as_object_mut() {
					o.sort()
				}
			});
			"sort_every_object"
		}
		3 => {
			each(value, &mut |v| {
				if let Some(s) = v.as_string_mut() {
					s.push('"');
					s.insert(0, '\u{1f}');
				}
				if let Some(b) = v.as_boolean_mut() {
					*b = !*b
				}
				if let Some(a) = v.as_array_mut() {
					a.reverse()
				}
			});
			"mutate_in_place"
		}
		_ => {
			let inner = value.take();
			let mut o = json_syntax::Object::new();
			o.push("\u{0}".into(), inner.clone());
			o.insert("\u{0}".into(), inner);
			*value = Value::Object(o);
			value.canonicalize();
			"take_wrap_canonicalize"
		}
	}
}

/// The round-trip clauses for a value that went through `postprocess`; the model is the read-back tree.
pub fn property_post(v: &RefValue, oc: &OptCase, route: bool, op: u8) -> Result<&'static str, String> {
	let mut value = build(v, route);
	let what = postprocess(&mut value, op);
	let model = RefValue::from_value(&value);
	let text = oc.print(&value);
	let chars: Vec<char> = text.chars().collect();
	let r = ref_parse(&chars, true);
	if !r.accepted_strict() {
		return Err(format!("after {what}: printed text is not a strict RFC 8259 document (reference: {:?}): {text:?}", r.syntax_err));
	}
	let doc = r.doc.unwrap();
	if doc.value != model {
		return Err(format!("after {what}: printed text {text:?} denotes {:?}, the accessors read {:?}", doc.value, model));
	}
	let (back, _) = Value::parse_str(&text).map_err(|e| format!("after {what}: printed text does not re-parse: {e:?} in {text:?}"))?;
	if back != value {
		return Err(format!("after {what}: re-parsing the printed text {text:?} gives a different value"));
	}
	Ok(what)
}

fn classify(v: &RefValue, oc: &OptCase) -> (bool, Vec<&'static str>) {
	let mut strs = vec![];
	v.all_strings(&mut strs);
	let esc = strs.iter().any(|s| s.chars().any(|c| (c as u32) < 0x20 || c == '"' || c == '\\'));
	let mut nums = vec![];
	v.all_numbers(&mut nums);
	let fancy_num = nums.iter().any(|n| n.contains(['.', 'e', 'E']));
	let custom = matches!(oc, OptCase::Custom(_));
	let mut classes = vec![];
	if esc {
		classes.push("string_needing_escape");
	}
	if fancy_num {
		classes.push("fraction_or_exponent");
	}
	classes.push(if custom { "custom_options" } else { "preset" });
	(v.is_container() && (esc || fancy_num) && custom, classes)
}

pub fn run(ctx: &mut Ctx) {
	if ctx.wants("G_values_x_options") {
		let n = ctx.pick(300_000, 2_000_000);
		let fam = Fam::new("G_values_x_options", "proptest: random value x random option record (3 presets; custom: every numeric field 0..=3, Spaces(0..=4)/Tabs(0..=2), every Limit variant); printed text accepted by the reference automaton, denotes the original tree, re-parses to an equal value, and minus insignificant whitespace equals the compact form; non-trivial = container with a string needing escapes or a fraction/exponent number under a custom record", false);
		let fam = run_proptest(
			ctx,
			fam,
			n,
			|| (gen::arb_doc_value(print_value_cfg()), arb_optcase(), any::<bool>()),
			|(v, oc, route)| match property(v, oc, *route) {
				Ok(()) => {
					let (nt, classes) = classify(v, oc);
					Outcome::ok(nt, classes)
				}
				Err(m) => Outcome::fail(m),
			},
			|(v, oc, route)| case_json(v, oc, *route),
		);
		ctx.add(fam);
	}
	if ctx.wants("B_small_values_x_option_set") {
		ctx.begin_family("B_small_values_x_option_set");
		let values = small_values();
		let opts = option_set(ctx, ctx.pick(600, 3000));
		let proto = Fam::new("B_small_values_x_option_set", &format!("bounded-exhaustive product: {} small values (<= 3 levels over 6 leaves) x {} option records (presets, one-field-at-a-time variations, seeded random records); non-trivial = container values under non-preset records", values.len(), opts.len()), true);
		let fam = values
			.par_iter()
			.fold(
				|| proto.fresh(),
				|mut fam, v| {
					for oc in &opts {
						fam.tick();
						match crate::framework::guarded(|| property(v, oc, false)) {
							Ok(Ok(())) => {
								if v.is_container() && matches!(oc, OptCase::Custom(_)) {
									fam.nontrivial()
								}
							}
							Ok(Err(m)) | Err(m) => fam.fail(case_json(v, oc, false), m, None),
						}
					}
					fam
				},
			)
			.reduce(|| proto.fresh(), |mut a, b| { a.merge(b); a });
		let mut fam = fam;
		fam.sample(|| case_json(&values[100], &opts[10], false));
		ctx.add(fam);
	}
	if ctx.wants("P_postprocessed_values") {
		let n = ctx.pick(150_000, 1_000_000);
		let fam = Fam::new("P_postprocessed_values", "proptest: random value (numbers include magnitudes outside double range) built on a random route, then post-processed through the public mutating API (canonicalize, canonicalize_with twice, sort of every object, in-place mutation through as_*_mut, take + wrap + canonicalize) and printed under a random option record; the printed text is accepted by the reference automaton, denotes the tree the accessors read back, re-parses to an equal value; non-trivial = the value contains a number and an object", false);
		let fam = run_proptest(
			ctx,
			fam,
			n,
			|| (gen::arb_doc_value(print_value_cfg()), arb_optcase(), any::<bool>(), 0u8..5),
			|(v, oc, route, op)| match property_post(v, oc, *route, *op) {
				Ok(what) => {
					let mut nums = vec![];
					v.all_numbers(&mut nums);
					let huge = nums.iter().any(|n| n.parse::<f64>().map(|f| f.is_infinite()).unwrap_or(false));
					let mut classes = vec![what];
					if huge {
						classes.push("number_outside_double_range");
					}
					Outcome::ok(!nums.is_empty() && v.any(&|x| matches!(x, RefValue::Obj(_))), classes)
				}
				Err(m) => Outcome::fail(m),
			},
			|(v, oc, route, op)| {
				let mut j = case_json(v, oc, *route);
				j["post"] = serde_json::json!(op);
				j
			},
		);
		ctx.add(fam);
	}
	ctx.assume("values are built through public constructors only (Value::from, Object::from_vec / push, NumberBuf::new)");
}

pub fn replay(_family: &str, case: &J) -> Result<(), String> {
	let (v, oc, route) = case_decode(case);
	if let Some(op) = case.get("post").and_then(|x| x.as_u64()) {
		return property_post(&v, &oc, route, op as u8).map(|_| ());
	}
	property(&v, &oc, route)
}
