//! Shared pieces of the printer properties C04, C08, C13.
use crate::framework::{sample_strategy, seed_bytes, Ctx};
use crate::gen;
use crate::refprint::{self, Lim, Opts};
use crate::refvalue::RefValue;
use json_syntax::{Print, Value};
use proptest::prelude::*;
use serde_json::{json, Value as J};

#[derive(Clone, Debug)]
pub enum OptCase {
	Preset(&'static str),
	Custom(Opts),
}

impl OptCase {
	pub fn opts(&self) -> Opts {
		match self {
			OptCase::Preset(p) => Opts::preset(p),
			OptCase::Custom(o) => o.clone(),
		}
	}
	/// Prints through the API a user would call for this case.
	pub fn print(&self, v: &Value) -> String {
		match self {
			OptCase::Preset("compact") => {
				// alternate between the three ways of asking for the compact form
				match crate::framework::hash64(&v.to_string().len()) % 3 {
					0 => v.compact_print().to_string(),
					1 => v.to_string(),
					_ => String::from(v.clone()),
				}
			}
			OptCase::Preset("inline") => v.inline_print().to_string(),
			OptCase::Preset("pretty") => v.pretty_print().to_string(),
			OptCase::Preset(_) => unreachable!(),
			OptCase::Custom(o) => v.print_with(o.to_crate()).to_string(),
		}
	}
	pub fn encode(&self) -> J {
		match self {
			OptCase::Preset(p) => json!({ "preset": p }),
			OptCase::Custom(o) => refprint::opts_json(o),
		}
	}
	pub fn decode(j: &J) -> OptCase {
		match j.get("preset").and_then(|p| p.as_str()) {
			Some("compact") => OptCase::Preset("compact"),
			Some("inline") => OptCase::Preset("inline"),
			Some("pretty") => OptCase::Preset("pretty"),
			Some(_) => panic!("bad preset"),
			None => OptCase::Custom(refprint::opts_from_json(j)),
		}
	}
}

pub fn arb_optcase() -> BoxedStrategy<OptCase> {
	prop_oneof![
		1 => prop::sample::select(vec!["compact", "inline", "pretty"]).prop_map(OptCase::Preset),
		9 => refprint::arb_custom_opts().prop_map(OptCase::Custom),
	]
	.boxed()
}

pub fn print_value_cfg() -> gen::ValueCfg {
	gen::ValueCfg { depth: 4, width: 5, dup_keys: true, big_numbers: true }
}

/// Builds the crate value through one of two construction routes.
pub fn build(v: &RefValue, route: bool) -> Value {
	if route {
		// one of five alternative construction routes, chosen by the value itself (deterministic)
		let r = crate::framework::hash64(&crate::refprint::compact(v)) % 8;
		v.to_value_route(1 + r as u8)
	} else {
		v.to_value()
	}
}

/// Bounded-exhaustive value set (<= 3 levels, 6 leaves).
pub fn small_values() -> Vec<RefValue> {
	let leaves = vec![RefValue::Null, RefValue::Bool(true), RefValue::num("0"), RefValue::str("a"), RefValue::str("\n\u{e9}"), RefValue::num("-1.5e3")];
	let mut s1: Vec<RefValue> = leaves.clone();
	s1.push(RefValue::Arr(vec![]));
	s1.push(RefValue::Obj(vec![]));
	for x in &leaves {
		s1.push(RefValue::Arr(vec![x.clone()]));
		s1.push(RefValue::Obj(vec![("k".into(), x.clone())]));
	}
	for x in &leaves[..3] {
		for y in &leaves[2..5] {
			s1.push(RefValue::Arr(vec![x.clone(), y.clone()]));
			s1.push(RefValue::Obj(vec![("k".into(), x.clone()), ("k\"".into(), y.clone())]));
		}
	}
	let seconds = vec![RefValue::Null, RefValue::Arr(vec![]), RefValue::Obj(vec![("k".into(), RefValue::num("0"))]), RefValue::Arr(vec![RefValue::num("0"), RefValue::num("0")])];
	let mut s2 = s1.clone();
	for x in &s1 {
		s2.push(RefValue::Arr(vec![x.clone()]));
		s2.push(RefValue::Obj(vec![("k".into(), x.clone())]));
		for y in &seconds {
			s2.push(RefValue::Arr(vec![x.clone(), y.clone()]));
			s2.push(RefValue::Obj(vec![("a".into(), x.clone()), ("bb".into(), y.clone())]));
			s2.push(RefValue::Arr(vec![y.clone(), x.clone(), y.clone()]));
		}
	}
	s2
}

/// Deterministic option records for the bounded-exhaustive product.
pub fn option_set(ctx: &Ctx, n: usize) -> Vec<OptCase> {
	let mut v = vec![OptCase::Preset("compact"), OptCase::Preset("inline"), OptCase::Preset("pretty")];
	let seed = seed_bytes(ctx.seed, "printing", "option_set", 0);
	v.extend(sample_strategy(seed, &refprint::arb_custom_opts(), n).into_iter().map(OptCase::Custom));
	// one-field-at-a-time variations of the compact record
	let base = Opts::preset("compact");
	for f in 0..12 {
		for val in 1..=3usize {
			let mut o = base.clone();
			match f {
				0 => o.array_begin = val,
				1 => o.array_end = val,
				2 => o.array_empty = val,
				3 => o.array_before_comma = val,
				4 => o.array_after_comma = val,
				5 => o.object_begin = val,
				6 => o.object_end = val,
				7 => o.object_empty = val,
				8 => o.object_before_comma = val,
				9 => o.object_after_comma = val,
				10 => o.object_before_colon = val,
				_ => o.object_after_colon = val,
			}
			for lim in [Lim::None, Lim::Always, Lim::Width(6), Lim::Item(1)] {
				let mut p = o.clone();
				p.array_limit = lim;
				p.object_limit = lim;
				p.indent_n = 1;
				v.push(OptCase::Custom(p));
			}
		}
	}
	v
}

pub fn case_json(v: &RefValue, oc: &OptCase, route: bool) -> J {
	json!({"value": v.encode(), "options": oc.encode(), "route_push": route})
}

pub fn case_decode(j: &J) -> (RefValue, OptCase, bool) {
	(RefValue::decode(&j["value"]), OptCase::decode(&j["options"]), j["route_push"].as_bool().unwrap_or(false))
}
