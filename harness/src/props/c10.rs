//! C10 — canonical form is idempotent, blind to member order, spacing, number spelling.
use crate::framework::{run_proptest, Ctx, Fam, Outcome};
use crate::gen::{self, Chooser};
use crate::objquery::check_all_objects;
use crate::refcanon;
use crate::refjson::ref_parse;
use crate::refvalue::RefValue;
use json_syntax::{Parse, Print, Value};
use proptest::prelude::*;
use serde_json::{json, Value as J};

/// Exact respelling of a JSON number (value preserved by construction).
pub fn respell(spelling: &str, ch: &mut Chooser) -> String {
	let (neg, u) = match spelling.strip_prefix('-') {
		Some(u) => (true, u),
		None => (false, spelling),
	};
	let (mant, exp) = match u.find(['e', 'E']) {
		Some(i) => (&u[..i], u[i + 1..].parse::<i64>().unwrap()),
		None => (u, 0),
	};
	let (int, frac) = match mant.find('.') {
		Some(i) => (&mant[..i], &mant[i + 1..]),
		None => (mant, ""),
	};
	let mut digits: String = format!("{int}{frac}").trim_start_matches('0').to_string();
	let mut scale = exp - frac.len() as i64; // value = digits x 10^scale
	let sign = if neg { "-" } else { "" };
	if digits.is_empty() {
		let forms = ["0", "0.0", "0e0", "0.00E+5", "0e-7", "0.000", "0E0"];
		return format!("{sign}{}", forms[(ch.next() % forms.len() as u8) as usize]);
	}
	// strip some trailing zeros
	let strip = ch.next() % 3;
	for _ in 0..strip {
		if digits.len() > 1 && digits.ends_with('0') {
			digits.pop();
			scale += 1;
		}
	}
	// append trailing zeros
	let z = (ch.next() % 4) as usize;
	for _ in 0..z {
		digits.push('0');
		scale -= 1;
	}
	// decimal point position: 0..=len (biased to the ends and to the original place)
	let len = digits.len();
	let i = match ch.next() % 5 {
		0 => len,
		1 => 1.min(len),
		2 => 0,
		_ => (ch.next() as usize * (len + 1)) >> 8,
	};
	let (ip, fp) = (&digits[..i], &digits[i..]);
	let e = scale + (len - i) as i64;
	let mut out = String::from(sign);
	out.push_str(if ip.is_empty() { "0" } else { ip });
	if !fp.is_empty() {
		out.push('.');
		out.push_str(fp);
	}
	let style = ch.next();
	if e != 0 || style % 4 == 0 {
		out.push(if style & 16 == 0 { 'e' } else { 'E' });
		if e < 0 {
			out.push('-');
		} else if style & 32 != 0 {
			out.push('+');
		}
		for _ in 0..(style >> 6) % 3 {
			out.push('0');
		}
		out.push_str(&e.abs().to_string());
	}
	out
}

/// A meaning-preserving rewriting of the tree: members shuffled at every level, numbers respelled.
pub fn rewrite(v: &RefValue, ch: &mut Chooser, all_perms_index: Option<usize>) -> RefValue {
	match v {
		RefValue::Num(n) => RefValue::Num(respell(n, ch)),
		RefValue::Arr(a) => RefValue::Arr(a.iter().map(|x| rewrite(x, ch, None)).collect()),
		RefValue::Obj(o) => {
			let mut es: Vec<(String, RefValue)> = o.iter().map(|(k, x)| (k.clone(), rewrite(x, ch, None))).collect();
			match all_perms_index {
				Some(mut idx) => {
					// idx-th permutation (factorial number system)
					let mut pool = es;
					let mut out = vec![];
					let mut n = pool.len();
					while n > 0 {
						out.push(pool.remove(idx % n));
						idx /= n;
						n -= 1;
					}
					es = out;
				}
				None => {
					for i in (1..es.len()).rev() {
						let j = (ch.next() as usize) % (i + 1);
						es.swap(i, j);
					}
				}
			}
			RefValue::Obj(es)
		}
		other => other.clone(),
	}
}

/// Normal form for "nothing else changed": entries sorted, numbers as doubles.
fn semantic_nf(v: &RefValue) -> String {
	match v {
		RefValue::Num(n) => {
			let f = refcanon::number_to_f64(n);
			format!("n{:016x}", if f == 0.0 { 0 } else { f.to_bits() })
		}
		RefValue::Arr(a) => format!("[{}]", a.iter().map(semantic_nf).collect::<Vec<_>>().join(",")),
		RefValue::Obj(o) => {
			let mut es: Vec<String> = o.iter().map(|(k, x)| format!("{k:?}:{}", semantic_nf(x))).collect();
			es.sort();
			format!("{{{}}}", es.join(","))
		}
		other => super::c15::normal_form(other),
	}
}

pub fn canon_of_text(text: &str) -> Result<(Value, String), String> {
	// the property quantifies over documents: a rewriting that cannot even be parsed has no canonical output, let alone
	// one identical to its twin's (unlike C02/C05/C11, whose statements start from a successful parse)
	let (mut v, _) = Value::parse_str(text).map_err(|e| format!("parse_str rejected a rewriting of the document, so it has no canonical output: {text:?}: {e:?}"))?;
	v.canonicalize();
	let s = v.compact_print().to_string();
	Ok((v, s))
}

pub fn property(tree: &RefValue, text_a: &str, text_b: &str) -> Result<(), String> {
	let (va, ca) = canon_of_text(text_a)?;
	let (vb, cb) = canon_of_text(text_b)?;
	if ca != cb {
		return Err(format!("two rewritings of the same document have different canonical output:\n A {text_a:?} -> {ca:?}\n B {text_b:?} -> {cb:?}"));
	}
	if va != vb {
		return Err("canonicalized values of two rewritings differ although their output is equal".into());
	}
	// idempotence
	let mut again = va.clone();
	again.canonicalize();
	if again != va || again.compact_print().to_string() != ca {
		return Err(format!("canonicalization is not idempotent on {text_a:?}"));
	}
	// canonical text re-parses and canonicalizes to itself
	let (_, cc) = canon_of_text(&ca)?;
	if cc != ca {
		return Err(format!("canonical output {ca:?} is not a fixed point: canonicalizing its parse gives {cc:?}"));
	}
	// nothing else changed
	let back = RefValue::from_value(&va);
	if semantic_nf(&back) != semantic_nf(tree) {
		return Err(format!("canonicalization changed more than order and number spelling: {back:?} from {tree:?}"));
	}
	// the reference reading of text A agrees with the tree (guards the generator)
	let chars: Vec<char> = text_a.chars().collect();
	let r = ref_parse(&chars, true);
	match r.doc {
		Some(d) if semantic_nf(&d.value) == semantic_nf(tree) => {}
		_ => return Err("harness: rewriting A does not denote the tree".into()),
	}
	// still fully queryable, index consistent
	check_all_objects(&va, &back, &["", "absent\u{3}key"]).map_err(|m| format!("after canonicalization: {m}"))
}

pub fn arb_case() -> BoxedStrategy<(RefValue, Vec<u8>, Vec<u8>, Vec<u8>, Vec<u8>)> {
	(super::c09_value(), proptest::collection::vec(any::<u8>(), 0..200), proptest::collection::vec(any::<u8>(), 0..200), gen::arb_choices(), gen::arb_choices()).boxed()
}

pub fn texts(tree: &RefValue, ra: &[u8], rb: &[u8], ca: &[u8], cb: &[u8]) -> (String, String, RefValue, RefValue) {
	let a = rewrite(tree, &mut Chooser::new(ra), None);
	let b = rewrite(tree, &mut Chooser::new(rb), None);
	(gen::render_doc(&a, ca, gen::RenderCfg::FREE), gen::render_doc(&b, cb, gen::RenderCfg::FREE), a, b)
}

pub fn run(ctx: &mut Ctx) {
	if ctx.wants("M_rewriting_pairs") {
		let n = ctx.pick(150_000, 600_000);
		let fam = Fam::new("M_rewriting_pairs", "proptest (metamorphic): one I-JSON tree, two rewritings that differ in whitespace, member order at every level (random shuffles), escape spelling and exact respellings of every number (exponent shifting, trailing zeros, e/E/+, leading zeros in the exponent; value preserved by construction): canonical bytes equal; canonicalizing twice = once; canonical text is a fixed point; structure/strings/literals preserved and every number keeps its double; object queries and the hook-dumped index stay consistent; non-trivial = the two rewritings differ in member order and in a number spelling", false);
		let fam = run_proptest(
			ctx,
			fam,
			n,
			arb_case,
			|(tree, ra, rb, ca, cb)| {
				let (ta, tb, a, b) = texts(tree, ra, rb, ca, cb);
				match property(tree, &ta, &tb) {
					Ok(()) => {
						let order_differs = {
							let strip = |v: &RefValue| -> Vec<String> {
								let mut keys = vec![];
								v.walk(&mut |x| {
									if let RefValue::Obj(o) = x {
										keys.push(o.iter().map(|(k, _)| k.clone()).collect::<Vec<_>>().join("\u{1}"))
									}
								});
								keys
							};
							strip(&a) != strip(&b)
						};
						let mut na = vec![];
						a.all_numbers(&mut na);
						let mut nb = vec![];
						b.all_numbers(&mut nb);
						na.sort();
						nb.sort();
						let spelling_differs = na != nb;
						let mut classes = vec![];
						if order_differs {
							classes.push("member_order_differs");
						}
						if spelling_differs {
							classes.push("number_spelling_differs");
						}
						Outcome::ok(order_differs && spelling_differs, classes)
					}
					Err(m) => Outcome::fail(m),
				}
			},
			|(tree, ra, rb, ca, cb)| {
				let (ta, tb, _, _) = texts(tree, ra, rb, ca, cb);
				json!({"tree": tree.encode(), "text_a": crate::framework::enc_text(&ta), "text_b": crate::framework::enc_text(&tb)})
			},
		);
		ctx.add(fam);
	}
	if ctx.wants("P_all_permutations") {
		let n = ctx.pick(3_000, 40_000);
		let fam = Fam::new("P_all_permutations", "proptest: a flat or nested object with <= 4 members (5 in the thorough tier): every permutation of its members (with respelled numbers) must canonicalize to the same bytes as the original; non-trivial = at least 3 members", false);
		let maxm = ctx.pick(4usize, 5usize);
		let fam = run_proptest(
			ctx,
			fam,
			n,
			move || (proptest::collection::vec((gen::arb_key(false), super::c09_value()), 0..=maxm), proptest::collection::vec(any::<u8>(), 0..64)),
			|(entries, ch)| {
				let tree = gen::dedup_keys(RefValue::Obj(entries.clone()));
				let m = match &tree {
					RefValue::Obj(o) => o.len(),
					_ => 0,
				};
				let base = gen::render_doc(&tree, &[], gen::RenderCfg::COMPACT);
				let nperm: usize = (1..=m).product();
				for p in 0..nperm.max(1) {
					let rw = rewrite(&tree, &mut Chooser::new(ch), Some(p));
					let text = gen::render_doc(&rw, ch, gen::RenderCfg::FREE);
					if let Err(e) = property(&tree, &base, &text) {
						return Outcome::fail(format!("permutation #{p}: {e}"));
					}
				}
				Outcome::ok(m >= 3, vec![match m {
					0 | 1 => "members_le1",
					2 => "members_2",
					3 => "members_3",
					4 => "members_4",
					_ => "members_5",
				}])
			},
			|(entries, ch)| json!({"tree": gen::dedup_keys(RefValue::Obj(entries.clone())).encode(), "choices": ch}),
		);
		ctx.add(fam);
	}
	if ctx.wants("N_number_respellings") {
		let n = ctx.pick(200_000, 3_000_000);
		let maxd = ctx.pick(40, 400);
		let fam = Fam::new("N_number_respellings", &format!("proptest: one I-JSON number (mix of C09, <= {maxd} digits) and two exact respellings: same canonical output; the respelling is verified to be exact with decimal arithmetic; non-trivial = more than 17 significant digits or both spellings differ"), false);
		let fam = run_proptest(
			ctx,
			fam,
			n,
			move || (super::c09::arb_ijson_number(maxd), proptest::collection::vec(any::<u8>(), 8), proptest::collection::vec(any::<u8>(), 8)),
			|(s, c1, c2)| {
				let a = respell(s, &mut Chooser::new(c1));
				let b = respell(s, &mut Chooser::new(c2));
				// the generator must be exact
				let exact = |x: &str| refcanon::Dec::parse(x.trim_start_matches('-'));
				if exact(&a) != exact(s) || exact(&b) != exact(s) || a.starts_with('-') != s.starts_with('-') {
					return Outcome::fail(format!("harness: respelling of {s} is not exact: {a} / {b}"));
				}
				let (ca, cb, c0) = (canon_of_text(&a), canon_of_text(&b), canon_of_text(s));
				match (ca, cb, c0) {
					(Ok((_, x)), Ok((_, y)), Ok((_, z))) => {
						if x != y || x != z {
							return Outcome::fail(format!("numerically equal spellings {s} / {a} / {b} canonicalize to {z} / {x} / {y}"));
						}
						let digits = s.chars().filter(|c| c.is_ascii_digit()).count();
						Outcome::ok(digits > 17 || a != b, vec![if digits > 19 { "gt19_digits" } else { "le19_digits" }])
					}
					(Err(e), _, _) | (_, Err(e), _) | (_, _, Err(e)) => Outcome::fail(e),
				}
			},
			|(s, c1, c2)| json!({"number": s, "respelling_a": respell(s, &mut Chooser::new(c1)), "respelling_b": respell(s, &mut Chooser::new(c2))}),
		);
		ctx.add(fam);
	}
	ctx.assume("numerical equality of respellings holds by construction (digit string and power of ten are rewritten exactly; re-verified with decimal arithmetic)");
}

pub fn replay(_family: &str, case: &J) -> Result<(), String> {
	if let Some(n) = case.get("number").and_then(|n| n.as_str()) {
		let a = case["respelling_a"].as_str().unwrap();
		let b = case["respelling_b"].as_str().unwrap();
		let (x, y, z) = (canon_of_text(a)?.1, canon_of_text(b)?.1, canon_of_text(n)?.1);
		return if x == y && y == z { Ok(()) } else { Err(format!("{n} / {a} / {b} canonicalize to {z} / {x} / {y}")) };
	}
	let tree = RefValue::decode(&case["tree"]);
	if case.get("text_a").is_some() {
		return property(&tree, &crate::framework::dec_text(&case["text_a"]), &crate::framework::dec_text(&case["text_b"]));
	}
	let ch: Vec<u8> = case["choices"].as_array().unwrap().iter().map(|x| x.as_u64().unwrap() as u8).collect();
	let m = match &tree {
		RefValue::Obj(o) => o.len(),
		_ => 0,
	};
	let base = gen::render_doc(&tree, &[], gen::RenderCfg::COMPACT);
	for p in 0..(1..=m).product::<usize>().max(1) {
		let rw = rewrite(&tree, &mut Chooser::new(&ch), Some(p));
		property(&tree, &base, &gen::render_doc(&rw, &ch, gen::RenderCfg::FREE))?;
	}
	Ok(())
}
