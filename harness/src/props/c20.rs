//! C20 — KindSet is a faithful finite set of value kinds.
use crate::framework::{Ctx, Fam};
use json_syntax::{Kind, KindSet, Value};
use serde_json::{json, Value as J};
use std::collections::BTreeSet;

const KINDS: [Kind; 6] = [Kind::Null, Kind::Boolean, Kind::Number, Kind::String, Kind::Array, Kind::Object];
const NAMES: [&str; 6] = ["null", "boolean", "number", "string", "array", "object"];

fn idx(k: Kind) -> usize {
	KINDS.iter().position(|x| *x == k).unwrap()
}

fn model(mask: u8) -> BTreeSet<usize> {
	(0..6).filter(|i| mask & (1 << i) != 0).collect()
}

/// Builds the set for `mask` by folding `|` over kinds (no access to the representation).
fn build(mask: u8) -> KindSet {
	let mut s = KindSet::none();
	for i in 0..6 {
		if mask & (1 << i) != 0 {
			s = s | KINDS[i];
		}
	}
	s
}

fn build_from_constants(mask: u8) -> KindSet {
	let consts = [KindSet::NULL, KindSet::BOOLEAN, KindSet::NUMBER, KindSet::STRING, KindSet::ARRAY, KindSet::OBJECT];
	let mut s = KindSet::default();
	for i in 0..6 {
		if mask & (1 << i) != 0 {
			s |= consts[i];
		}
	}
	s
}

fn contents(s: KindSet) -> BTreeSet<usize> {
	s.iter().map(idx).collect()
}

fn render(m: &BTreeSet<usize>, last_sep: &str) -> String {
	if m.len() == 6 {
		return "anything".into();
	}
	let names: Vec<&str> = m.iter().map(|i| NAMES[*i]).collect();
	match names.len() {
		0 => "nothing".into(),
		1 => names[0].into(),
		n => format!("{}{}{}", names[..n - 1].join(", "), last_sep, names[n - 1]),
	}
}

pub fn check_set(mask: u8) -> Result<u64, String> {
	let mut evals = 0u64;
	let m = model(mask);
	let s = build(mask);
	if s != build_from_constants(mask) {
		return Err(format!("set {mask:#08b}: folding | over kinds differs from |= over the constants"));
	}
	if contents(s) != m {
		return Err(format!("set {mask:#08b}: iter() yields {:?}, expected {m:?}", contents(s)));
	}
	if s.len() != m.len() || s.is_empty() != m.is_empty() {
		return Err(format!("set {mask:#08b}: len()/is_empty() = {}/{}, expected {}/{}", s.len(), s.is_empty(), m.len(), m.is_empty()));
	}
	if (mask == 0) != (s == KindSet::none()) || (mask == 63) != (s == KindSet::all()) {
		return Err(format!("set {mask:#08b}: comparison with none()/all() is wrong"));
	}
	// ascending order, into_iter variants
	let fwd: Vec<usize> = s.iter().map(idx).collect();
	let mut sorted = fwd.clone();
	sorted.sort();
	if fwd != sorted || fwd != s.into_iter().map(idx).collect::<Vec<_>>() || fwd != (&s).into_iter().map(idx).collect::<Vec<_>>() {
		return Err(format!("set {mask:#08b}: iteration is not in ascending kind order or into_iter differs"));
	}
	// every interleaving of front/back steps
	let n = m.len();
	for pattern in 0u32..(1 << n) {
		evals += 1;
		let mut it = s.iter();
		let mut expect: std::collections::VecDeque<usize> = m.iter().copied().collect();
		for step in 0..n {
			let remaining = expect.len();
			if it.size_hint() != (remaining, Some(remaining)) || it.len() != remaining {
				return Err(format!("set {mask:#08b}: size_hint/len = {:?}/{} with {remaining} kinds remaining", it.size_hint(), it.len()));
			}
			let (got, want) = if pattern & (1 << step) == 0 { (it.next(), expect.pop_front()) } else { (it.next_back(), expect.pop_back()) };
			if got.map(idx) != want {
				return Err(format!("set {mask:#08b}: interleaving {pattern:#b} step {step}: got {got:?}, expected {:?}", want.map(|i| NAMES[i])));
			}
		}
		if it.next().is_some() || it.next_back().is_some() || it.next().is_some() || it.len() != 0 {
			return Err(format!("set {mask:#08b}: iterator not exhausted (or not fused) after {n} steps"));
		}
	}
	// overridable iterator methods and adaptors must agree with the plain model too
	let mv: Vec<usize> = m.iter().copied().collect();
	for k in 0..=n + 2 {
		evals += 1;
		// nth(k), then the iterator continues after the k+1 consumed items (or is exhausted)
		let mut it = s.iter();
		let got = it.nth(k).map(idx);
		if got != mv.get(k).copied() {
			return Err(format!("set {mask:#08b}: nth({k}) = {got:?}, expected {:?}", mv.get(k)));
		}
		let rest: Vec<usize> = it.clone().map(idx).collect();
		let want_rest: Vec<usize> = mv.iter().skip(k + 1).copied().collect();
		if rest != want_rest || it.len() != want_rest.len() {
			return Err(format!("set {mask:#08b}: after nth({k}) the iterator yields {rest:?} (len {}), expected {want_rest:?}", it.len()));
		}
		let mut it = s.iter();
		let got = it.nth_back(k).map(idx);
		if got != mv.iter().rev().nth(k).copied() {
			return Err(format!("set {mask:#08b}: nth_back({k}) = {got:?}"));
		}
		let rest: Vec<usize> = it.map(idx).collect();
		let want_rest: Vec<usize> = mv.iter().rev().skip(k + 1).rev().copied().collect();
		if rest != want_rest {
			return Err(format!("set {mask:#08b}: after nth_back({k}) the iterator yields {rest:?}, expected {want_rest:?}"));
		}
		let skipped: Vec<usize> = s.iter().skip(k).map(idx).collect();
		if skipped != mv.iter().skip(k).copied().collect::<Vec<_>>() {
			return Err(format!("set {mask:#08b}: skip({k}) yields {skipped:?}"));
		}
		let mut sk = s.iter().skip(k);
		while sk.next().is_some() {}
		if sk.next().is_some() {
			return Err(format!("set {mask:#08b}: skip({k}) yields items after None"));
		}
		let stepped: Vec<usize> = s.iter().step_by(k + 1).map(idx).collect();
		if stepped != mv.iter().step_by(k + 1).copied().collect::<Vec<_>>() {
			return Err(format!("set {mask:#08b}: step_by({}) yields {stepped:?}", k + 1));
		}
		let taken: Vec<usize> = s.iter().take(k).map(idx).collect();
		if taken != mv.iter().take(k).copied().collect::<Vec<_>>() {
			return Err(format!("set {mask:#08b}: take({k}) yields {taken:?}"));
		}
	}
	if s.iter().rev().map(idx).collect::<Vec<_>>() != mv.iter().rev().copied().collect::<Vec<_>>() || s.iter().count() != n || s.iter().last().map(idx) != mv.last().copied() || Iterator::min(s.iter()).map(idx) != mv.first().copied() || Iterator::max(s.iter()).map(idx) != mv.last().copied() {
		return Err(format!("set {mask:#08b}: rev/count/last/min/max disagree with the model"));
	}
	if s.iter().fold(0usize, |a, k| a * 7 + idx(k)) != mv.iter().fold(0usize, |a, k| a * 7 + k) || s.iter().rfold(0usize, |a, k| a * 7 + idx(k)) != mv.iter().rfold(0usize, |a, k| a * 7 + k) {
		return Err(format!("set {mask:#08b}: fold/rfold disagree with the model"));
	}
	// renderings
	let disj = s.as_disjunction().to_string();
	let conj = s.as_conjunction().to_string();
	if disj != render(&m, " or ") {
		return Err(format!("set {mask:#08b}: as_disjunction = {disj:?}, expected {:?}", render(&m, " or ")));
	}
	if conj != render(&m, " and ") {
		return Err(format!("set {mask:#08b}: as_conjunction = {conj:?}, expected {:?}", render(&m, " and ")));
	}
	let plain = s.to_string();
	let want_plain = m.iter().map(|i| NAMES[*i]).collect::<Vec<_>>().join(", ");
	if plain != want_plain {
		return Err(format!("set {mask:#08b}: Display = {plain:?}, expected {want_plain:?}"));
	}
	Ok(evals)
}

pub fn check_pair(a: u8, b: u8) -> Result<(), String> {
	let (sa, sb) = (build(a), build(b));
	let (ma, mb) = (model(a), model(b));
	let union: BTreeSet<usize> = ma.union(&mb).copied().collect();
	let inter: BTreeSet<usize> = ma.intersection(&mb).copied().collect();
	if contents(sa | sb) != union {
		return Err(format!("{a:#08b} | {b:#08b} = {:?}, expected {union:?}", contents(sa | sb)));
	}
	if contents(sa & sb) != inter {
		return Err(format!("{a:#08b} & {b:#08b} = {:?}, expected {inter:?}", contents(sa & sb)));
	}
	let mut x = sa;
	x |= sb;
	let mut y = sa;
	y &= sb;
	if contents(x) != union || contents(y) != inter {
		return Err(format!("{a:#08b} |= / &= {b:#08b} wrong"));
	}
	if (sa == sb) != (ma == mb) {
		return Err(format!("{a:#08b} == {b:#08b} is {}", sa == sb));
	}
	Ok(())
}

pub fn check_set_kind(a: u8, k: usize) -> Result<(), String> {
	let s = build(a);
	let m = model(a);
	let mut with = m.clone();
	with.insert(k);
	let only: BTreeSet<usize> = if m.contains(&k) { [k].into_iter().collect() } else { BTreeSet::new() };
	if contents(s | KINDS[k]) != with || contents(KINDS[k] | s) != with {
		return Err(format!("{a:#08b} | {} wrong", NAMES[k]));
	}
	if contents(s & KINDS[k]) != only || contents(KINDS[k] & s) != only {
		return Err(format!("{a:#08b} & {} wrong", NAMES[k]));
	}
	// the set's disjunctive rendering as embedded in the crate's own "unexpected kind" error message
	let msg = json_syntax::Unexpected { expected: s, found: KINDS[k] }.to_string();
	let want = render(&m, " or ");
	if !msg.contains(&want) || !msg.contains(NAMES[k]) {
		return Err(format!("Unexpected {{ expected: {a:#08b}, found: {} }} is rendered {msg:?}, which does not contain the set's disjunction {want:?} and the found kind", NAMES[k]));
	}
	let mut x = s;
	x |= KINDS[k];
	let mut y = s;
	y &= KINDS[k];
	if contents(x) != with || contents(y) != only {
		return Err(format!("{a:#08b} |= / &= {} wrong", NAMES[k]));
	}
	Ok(())
}

pub fn check_kind_pair(i: usize, j: usize) -> Result<(), String> {
	let u: BTreeSet<usize> = [i, j].into_iter().collect();
	let n: BTreeSet<usize> = if i == j { [i].into_iter().collect() } else { BTreeSet::new() };
	if contents(KINDS[i] | KINDS[j]) != u || contents(KINDS[i] & KINDS[j]) != n {
		return Err(format!("{} |/& {} wrong", NAMES[i], NAMES[j]));
	}
	if contents(KindSet::from(KINDS[i])) != [i].into_iter().collect() {
		return Err(format!("KindSet::from({}) wrong", NAMES[i]));
	}
	if KINDS[i].to_string() != NAMES[i] {
		return Err(format!("Display of kind {} is {:?}", NAMES[i], KINDS[i].to_string()));
	}
	Ok(())
}

pub fn check_value_kinds() -> Result<u64, String> {
	let vals = [Value::Null, Value::Boolean(true), Value::from(1u8), Value::from("s"), Value::Array(vec![]), Value::Object(Default::default())];
	let mut n = 0;
	for (i, v) in vals.iter().enumerate() {
		if idx(v.kind()) != i {
			return Err(format!("kind() of a {} value is {}", NAMES[i], v.kind()));
		}
		for (j, k) in KINDS.iter().enumerate() {
			n += 1;
			if v.is_kind(*k) != (i == j) {
				return Err(format!("is_kind({}) on a {} value is {}", NAMES[j], NAMES[i], v.is_kind(*k)));
			}
		}
		let flags = [v.is_null(), v.is_boolean(), v.is_number(), v.is_string(), v.is_array(), v.is_object()];
		for (j, f) in flags.iter().enumerate() {
			if *f != (i == j) {
				return Err(format!("is_{}() on a {} value is {f}", NAMES[j], NAMES[i]));
			}
		}
	}
	Ok(n)
}

pub fn run(ctx: &mut Ctx) {
	ctx.begin_family("K_complete_domain");
	let mut fam = Fam::new("K_complete_domain", "the complete domain: 64 sets (built by folding | over kinds and by |= over the constants) with every front/back interleaving of iter(), len/is_empty/size_hint/ExactSizeIterator::len, Display, as_disjunction, as_conjunction, all()/none(); 64x64 set pairs (|, &, |=, &=, ==), 64x6 set/kind pairs in both operand orders, 6x6 kind pairs; Value::kind/is_kind/is_* for a value of each variant; model = BTreeSet<Kind>; non-trivial = pairs with both operands non-empty and different, sets with >= 2 kinds", true);
	for mask in 0u8..64 {
		match check_set(mask) {
			Ok(e) => {
				fam.evaluations += e;
				if mask.count_ones() >= 2 {
					fam.nontrivial()
				}
			}
			Err(m) => fam.fail(json!({"set": mask}), m, None),
		}
	}
	for a in 0u8..64 {
		for b in 0u8..64 {
			fam.tick();
			match check_pair(a, b) {
				Ok(()) => {
					if a != 0 && b != 0 && a != b {
						fam.nontrivial()
					}
				}
				Err(m) => fam.fail(json!({"a": a, "b": b}), m, None),
			}
		}
		for k in 0..6 {
			fam.tick();
			match check_set_kind(a, k) {
				Ok(()) => {
					if a != 0 {
						fam.nontrivial()
					}
				}
				Err(m) => fam.fail(json!({"a": a, "kind": k}), m, None),
			}
		}
	}
	for i in 0..6 {
		for j in 0..6 {
			fam.tick();
			match check_kind_pair(i, j) {
				Ok(()) => {
					if i != j {
						fam.nontrivial()
					}
				}
				Err(m) => fam.fail(json!({"kind_a": i, "kind_b": j}), m, None),
			}
		}
	}
	match check_value_kinds() {
		Ok(n) => fam.evaluations += n,
		Err(m) => fam.fail(json!({"value_kinds": true}), m, None),
	}
	fam.sample(|| json!({"set": 0b101001, "as_disjunction": "null, string or object", "interleaving": "front, back, front"}));
	fam.sample(|| json!({"a": 0b000111, "b": 0b011100, "union": 0b011111, "intersection": 0b000100}));
	ctx.add(fam);
	ctx.assume("renderings follow the rustdoc examples: 'nothing', a single kind, 'a, b or c' / 'a, b and c', 'anything'; Display of a set = kinds joined by ', '");
}

pub fn replay(_family: &str, case: &J) -> Result<(), String> {
	if let Some(s) = case.get("set") {
		return check_set(s.as_u64().unwrap() as u8).map(|_| ());
	}
	if let (Some(a), Some(b)) = (case.get("a"), case.get("b")) {
		return check_pair(a.as_u64().unwrap() as u8, b.as_u64().unwrap() as u8);
	}
	if let (Some(a), Some(k)) = (case.get("a"), case.get("kind")) {
		return check_set_kind(a.as_u64().unwrap() as u8, k.as_u64().unwrap() as usize);
	}
	if let (Some(a), Some(b)) = (case.get("kind_a"), case.get("kind_b")) {
		return check_kind_pair(a.as_u64().unwrap() as usize, b.as_u64().unwrap() as usize);
	}
	check_value_kinds().map(|_| ())
}
