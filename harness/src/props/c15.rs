//! C15 — unordered equality is exactly equality up to permutation of object entries.
use crate::framework::{run_proptest, Ctx, Fam, Outcome};
use crate::gen;
use crate::refvalue::RefValue;
use json_syntax::{BorrowUnordered, Unordered, UnorderedPartialEq, Value};
use proptest::prelude::*;
use rayon::prelude::*;
use serde_json::{json, Value as J};

/// Normal form: entries sorted recursively by (key, normal form); rendered as a string.
pub fn normal_form(v: &RefValue) -> String {
	match v {
		RefValue::Arr(a) => format!("[{}]", a.iter().map(normal_form).collect::<Vec<_>>().join(",")),
		RefValue::Obj(o) => {
			let mut es: Vec<(String, String)> = o.iter().map(|(k, x)| (k.clone(), normal_form(x))).collect();
			es.sort();
			format!("{{{}}}", es.iter().map(|(k, n)| format!("{:?}:{n}", k)).collect::<Vec<_>>().join(","))
		}
		RefValue::Str(s) => format!("s{s:?}"),
		RefValue::Num(n) => format!("n{n}"),
		RefValue::Bool(b) => format!("b{b}"),
		RefValue::Null => "z".into(),
	}
}

pub fn pair_property(a: &Value, b: &Value, expected: bool, with_owned: bool) -> Result<(), String> {
	let r1 = a.unordered_eq(b);
	let r2 = b.unordered_eq(a);
	let r3 = a.as_unordered() == b.as_unordered();
	if r1 != expected || r2 != expected || r3 != expected {
		return Err(format!("unordered_eq(a,b)={r1}, (b,a)={r2}, as_unordered()=={r3}; equality up to permutation of entries is {expected}"));
	}
	if (a.as_unordered() != b.as_unordered()) == expected {
		return Err("!= on Unordered is not the negation of ==".into());
	}
	if with_owned {
		let r4 = Unordered(a.clone()) == Unordered(b.clone());
		if r4 != expected {
			return Err(format!("Unordered(a) == Unordered(b) is {r4}, expected {expected}"));
		}
		if let (Value::Object(x), Value::Object(y)) = (a, b) {
			if x.unordered_eq(y) != expected || (x.as_unordered() == y.as_unordered()) != expected {
				return Err("Object-level unordered comparison differs from the Value-level one".into());
			}
		}
	}
	if a == b && !r1 {
		return Err("== holds but unordered equality does not".into());
	}
	Ok(())
}

/// Values used as entry values in the exhaustive families.
pub fn base_values() -> Vec<RefValue> {
	let ab = RefValue::Obj(vec![("a".into(), RefValue::num("1")), ("b".into(), RefValue::num("2"))]);
	let ba = RefValue::Obj(vec![("b".into(), RefValue::num("2")), ("a".into(), RefValue::num("1"))]);
	vec![
		RefValue::num("1"),
		RefValue::num("2"),
		RefValue::Obj(vec![]),
		RefValue::Obj(vec![("a".into(), RefValue::num("1"))]),
		RefValue::Arr(vec![RefValue::num("1")]),
		ab.clone(),
		ba.clone(),
		RefValue::Arr(vec![ab]),
		RefValue::Arr(vec![ba]),
	]
}

pub fn small_objects(nvalues: usize, max_entries: usize) -> Vec<RefValue> {
	let vals = &base_values()[..nvalues];
	let syms: Vec<(String, RefValue)> = ["a", "b"].iter().flat_map(|k| vals.iter().map(move |v| (k.to_string(), v.clone()))).collect();
	let mut out = vec![RefValue::Obj(vec![])];
	let mut frontier: Vec<Vec<(String, RefValue)>> = vec![vec![]];
	for _ in 0..max_entries {
		let mut next = vec![];
		for f in &frontier {
			for s in &syms {
				let mut t = f.clone();
				t.push(s.clone());
				next.push(t);
			}
		}
		out.extend(next.iter().cloned().map(RefValue::Obj));
		frontier = next;
	}
	out
}

fn exhaustive_pairs(name: &str, objs: &[RefValue], rule: &str) -> Fam {
	let values: Vec<Value> = objs.iter().map(|o| o.to_value()).collect();
	let nf: Vec<u64> = objs.iter().map(|o| crate::framework::hash64(&normal_form(o))).collect();
	let nfs: Vec<String> = objs.iter().map(normal_form).collect();
	let dup_multi: Vec<bool> = objs
		.iter()
		.map(|o| match o {
			RefValue::Obj(e) => e.len() >= 2 && e.iter().any(|(k, _)| e.iter().filter(|(k2, _)| k2 == k).count() >= 2),
			_ => false,
		})
		.collect();
	let nested: Vec<bool> = objs.iter().map(|o| o.any(&|x| matches!(x, RefValue::Arr(a) if a.iter().any(|y| matches!(y, RefValue::Obj(_)))))).collect();
	let n = objs.len();
	let proto = Fam::new(name, rule, true);
	(0..n)
		.into_par_iter()
		.fold(
			|| proto.fresh(),
			|mut fam, i| {
				for j in 0..n {
					fam.tick();
					let expected = nf[i] == nf[j] && nfs[i] == nfs[j];
					match crate::framework::guarded(|| pair_property(&values[i], &values[j], expected, (i + j) % 64 == 0)) {
						Ok(Ok(())) => {
							if i != j && ((dup_multi[i] && dup_multi[j]) || nested[i] || nested[j]) {
								fam.nontrivial();
								if expected {
									fam.classes.entry("nontrivial_equal".into()).and_modify(|c| *c += 1).or_insert(1);
								}
							}
						}
						Ok(Err(m)) | Err(m) => fam.fail(json!({"a": objs[i].encode(), "b": objs[j].encode()}), m, None),
					}
				}
				fam
			},
		)
		.reduce(|| proto.fresh(), |mut a, b| { a.merge(b); a })
}

/// Shuffles object entries at every level, driven by a choice stream.
pub fn shuffle(v: &RefValue, ch: &mut gen::Chooser) -> RefValue {
	match v {
		RefValue::Arr(a) => RefValue::Arr(a.iter().map(|x| shuffle(x, ch)).collect()),
		RefValue::Obj(o) => {
			let mut es: Vec<(String, RefValue)> = o.iter().map(|(k, x)| (k.clone(), shuffle(x, ch))).collect();
			// Fisher-Yates with the choice stream
			for i in (1..es.len()).rev() {
				let j = (ch.next() as usize) % (i + 1);
				es.swap(i, j);
			}
			RefValue::Obj(es)
		}
		other => other.clone(),
	}
}

/// D_wide_duplicates on one case.
pub fn wide_duplicates_case(entries: &[(u8, u8)], ch: &[u8], p: u16, q: u16, newv: u8) -> Outcome {
	let (p, q, newv) = (&p, &q, &newv);

	let keys = ["k", "a-key-longer-than-sixteen-bytes", ""];
	let vals = [RefValue::num("1"), RefValue::num("2"), RefValue::Arr(vec![RefValue::num("1")]), RefValue::Obj(vec![])];
	let a: Vec<(String, RefValue)> = entries.iter().map(|(k, v)| (keys[*k as usize].to_string(), vals[*v as usize].clone())).collect();
	let va = RefValue::Obj(a.clone());
	// (i) permutation
	let perm = shuffle(&va, &mut gen::Chooser::new(ch));
	// (ii) one value flipped
	let mut b = match &perm { RefValue::Obj(o) => o.clone(), _ => unreachable!() };
	let i = gen::map_index(*p, b.len());
	b[i].1 = vals[*newv as usize].clone();
	let vb = RefValue::Obj(b.clone());
	// (iii) two values exchanged
	let mut c = b.clone();
	let j = gen::map_index(*q, c.len());
	let (x, y) = (c[i].1.clone(), c[j].1.clone());
	c[i].1 = y;
	c[j].1 = x;
	let vc = RefValue::Obj(c);
	let (ja, jp, jb, jc) = (va.to_value(), perm.to_value_push(), vb.to_value(), vc.to_value_push());
	for (name, x, y, rx, ry) in [("permutation", &ja, &jp, &va, &perm), ("one value flipped", &ja, &jb, &va, &vb), ("flipped vs exchanged", &jb, &jc, &vb, &vc), ("original vs exchanged", &ja, &jc, &va, &vc)] {
		let expected = normal_form(rx) == normal_form(ry);
		if let Err(m) = pair_property(x, y, expected, false) {
			return Outcome::fail(format!("{name}: {m}"));
		}
	}
	Outcome::ok(a.len() > 32, vec![if a.len() > 64 { "entries_gt_64" } else if a.len() > 32 { "entries_33_64" } else { "entries_le_32" }])
			}

/// H_after_histories on one case.
pub fn after_history_case(ops: &[super::c06::Op], rot: u16, mutsel: u16) -> Outcome {
	let (rot, mutsel) = (&rot, &mutsel);

	let universe = ["a", "\u{e000}", "\u{10000}", "c"];
	let (obj, model) = match super::c06::run_history(ops, &universe, false) {
		Ok(x) => x,
		// an operation that misbehaves is C06's business; this family only needs *some* object with a history
		Err(m) => return Outcome::fail(format!("SKIP: the operation history did not produce the modelled object (C06's business) [{m}]")),
	};
	let a = Value::Object(obj);
	let mut rotated = model.clone();
	if !rotated.is_empty() {
		let k = gen::map_index(*rot, rotated.len());
		rotated.rotate_left(k);
	}
	let b = RefValue::Obj(rotated.clone());
	if let Err(m) = pair_property(&a, &b.to_value(), true, false) {
		return Outcome::fail(format!("object after the history vs rotated rebuild: {m}"));
	}
	let mut has_dup = false;
	if !rotated.is_empty() {
		let i = gen::map_index(*mutsel, rotated.len());
		// take the value of another entry with the same key if there is one (changes multiplicities only), else a fresh value
		let key = rotated[i].0.clone();
		let other = rotated.iter().enumerate().find(|(j, (k, v))| *j != i && *k == key && *v != rotated[i].1).map(|(_, (_, v))| v.clone());
		has_dup = rotated.iter().filter(|(k, _)| *k == key).count() >= 2;
		rotated[i].1 = other.unwrap_or(RefValue::str("fresh"));
		let c = RefValue::Obj(rotated);
		let expected = normal_form(&RefValue::Obj(model.clone())) == normal_form(&c);
		if let Err(m) = pair_property(&a, &c.to_value(), expected, false) {
			return Outcome::fail(format!("object after the history vs mutated rebuild: {m}"));
		}
	}
	let removal = ops.iter().any(|o| matches!(o, super::c06::Op::Remove(..) | super::c06::Op::RemoveAt(_) | super::c06::Op::RemoveUnique(_) | super::c06::Op::Insert(..) | super::c06::Op::InsertFront(..)));
	Outcome::ok(removal && has_dup, vec![])
			}

/// G_shuffle_and_mutate on one case.
pub fn shuffle_case(v: &RefValue, ch: &[u8], sel: u16, kind: u8) -> Outcome {
	let (sel, kind) = (&sel, &kind);
	let s = shuffle(v, &mut gen::Chooser::new(ch));
	let m = super::c14::near_copy(&s, *sel, *kind);
	let (a, b, c) = (v.to_value_route(*kind), s.to_value_route(kind.wrapping_add(*sel as u8)), m.to_value_route((*sel >> 8) as u8));
	if normal_form(v) != normal_form(&s) {
		return Outcome::fail("harness: shuffle changed the normal form".into());
	}
	if let Err(e) = pair_property(&a, &b, true, true) {
		return Outcome::fail(format!("value vs shuffled copy: {e}"));
	}
	let exp = normal_form(v) == normal_form(&m);
	if let Err(e) = pair_property(&a, &c, exp, true) {
		return Outcome::fail(format!("value vs mutated shuffled copy: {e}"));
	}
	if let Err(e) = pair_property(&b, &c, exp, false) {
		return Outcome::fail(format!("shuffled copy vs its mutation: {e}"));
	}
	// the same three values after in-place post-processing (canonicalization or sorting of every object):
	// the expectation comes from the normal forms of what the accessors read back
	let post = (*kind >> 2) % 3;
	if post != 0 {
		let (mut a, mut b, mut c) = (a, b, c);
		for x in [&mut a, &mut b, &mut c] {
			if post == 1 {
				x.canonicalize()
			} else {
				sort_all(x)
			}
		}
		let (ra, rb, rc) = (RefValue::from_value(&a), RefValue::from_value(&b), RefValue::from_value(&c));
		let what = if post == 1 { "canonicalized" } else { "sorted" };
		if let Err(e) = pair_property(&a, &b, normal_form(&ra) == normal_form(&rb), true) {
			return Outcome::fail(format!("{what} value vs {what} shuffled copy: {e}"));
		}
		if let Err(e) = pair_property(&a, &c, normal_form(&ra) == normal_form(&rc), true) {
			return Outcome::fail(format!("{what} value vs {what} mutated copy: {e}"));
		}
		if let Err(e) = pair_property(&v.to_value(), &b, normal_form(v) == normal_form(&rb), false) {
			return Outcome::fail(format!("value vs {what} shuffled copy: {e}"));
		}
	}
	let changed = *v != s;
	Outcome::ok(changed, vec![["as_built", "canonicalized", "sorted"][post as usize], if changed { "shuffle_changed_order" } else { "shuffle_identity" }, if exp { "mutation_equal" } else { "mutation_differs" }])
}

fn sort_all(v: &mut Value) {
	match v {
		Value::Array(a) => a.iter_mut().for_each(sort_all),
		Value::Object(o) => {
			o.iter_mut().for_each(|e| sort_all(e.1));
			o.sort()
		}
		_ => {}
	}
}

pub fn run(ctx: &mut Ctx) {
	if ctx.wants("X3_all_pairs_le3_entries") {
		ctx.begin_family("X3_all_pairs_le3_entries");
		let objs = small_objects(9, 3);
		let mut fam = exhaustive_pairs("X3_all_pairs_le3_entries", &objs, &format!("all ordered pairs of the {} objects with <= 3 entries over keys a/b and 9 values (scalars, {{}}, nested objects in both entry orders, arrays of those): unordered_eq (both directions), as_unordered(), Unordered(..) == reference 'normal forms are equal'; non-trivial = both sides carry a duplicated key, or an object sits under an array", objs.len()));
		fam.sample(|| json!({"a": objs[5000].encode(), "b": objs[5001].encode()}));
		ctx.add(fam);
	}
	if ctx.wants("X4_all_pairs_le4_entries") {
		ctx.begin_family("X4_all_pairs_le4_entries");
		let objs = small_objects(5, 4);
		let mut fam = exhaustive_pairs("X4_all_pairs_le4_entries", &objs, &format!("all ordered pairs of the {} objects with <= 4 entries over keys a/b and 5 values", objs.len()));
		fam.sample(|| json!({"a": objs[9000].encode(), "b": objs[9001].encode()}));
		ctx.add(fam);
	}
	if !ctx.quick() && ctx.wants("X4b_all_pairs_le4_entries_7_values") {
		ctx.begin_family("X4b_all_pairs_le4_entries_7_values");
		let objs = small_objects(7, 4);
		let mut fam = exhaustive_pairs("X4b_all_pairs_le4_entries_7_values", &objs, &format!("all ordered pairs of the {} objects with <= 4 entries over keys a/b and 7 values", objs.len()));
		fam.sample(|| json!({"a": objs[30000].encode(), "b": objs[30001].encode()}));
		ctx.add(fam);
	}
	if ctx.wants("W_wrapped_in_arrays") {
		ctx.begin_family("W_wrapped_in_arrays");
		// the same small objects nested as [x, y] and {"k": x}: recursion through arrays and values
		let objs = small_objects(4, 2);
		let mut wrapped: Vec<RefValue> = vec![];
		for (i, x) in objs.iter().enumerate() {
			wrapped.push(RefValue::Arr(vec![x.clone()]));
			wrapped.push(RefValue::Obj(vec![("k".into(), x.clone())]));
			wrapped.push(RefValue::Arr(vec![x.clone(), objs[(i * 7 + 3) % objs.len()].clone()]));
			wrapped.push(RefValue::Arr(vec![objs[(i * 7 + 3) % objs.len()].clone(), x.clone()]));
		}
		let mut fam = exhaustive_pairs("W_wrapped_in_arrays", &wrapped, &format!("all ordered pairs of {} values wrapping the small objects in arrays (order matters) and under a key", wrapped.len()));
		fam.sample(|| json!({"a": wrapped[10].encode(), "b": wrapped[14].encode()}));
		ctx.add(fam);
	}
	if ctx.wants("G_shuffle_and_mutate") {
		let n = ctx.pick(60_000, 1_000_000);
		let fam = Fam::new("G_shuffle_and_mutate", "proptest: random value, a copy with entries shuffled at every level (must be unordered-equal), and a single-leaf mutation of that copy (expected verdict from the reference normal form), then in two cases out of three the same three values after canonicalize() resp. sort() of every object (expectation from the normal forms of the read-back trees); non-trivial = the value contains an object with >= 2 entries and the shuffle changed it", false);
		let fam = run_proptest(
			ctx,
			fam,
			n,
			|| (gen::arb_doc_value(gen::ValueCfg::MEDIUM), proptest::collection::vec(any::<u8>(), 0..256), any::<u16>(), any::<u8>()),
			|(v, ch, sel, kind)| shuffle_case(v, ch, *sel, *kind),
			|(v, ch, sel, kind)| json!({"value": v.encode(), "choices": ch, "sel": sel, "kind": kind}),
		);
		ctx.add(fam);
	}
	// wide objects over one or two keys and two values: multiplicities beyond 32/64 entries
	if ctx.wants("D_wide_duplicates") {
		let n = ctx.pick(40_000, 600_000);
		let fam = Fam::new("D_wide_duplicates", "proptest: objects with 2..130 entries over <= 3 keys and values from {1, 2, [1], {}} (so that equal (key, value) pairs abound), compared with (i) a random permutation (equal), (ii) the same with one value flipped (multiplicities differ), (iii) the same with two values exchanged between positions (equal as multisets); expectation from the normal form; both argument orders; non-trivial = more than 32 entries", false);
		let fam = run_proptest(
			ctx,
			fam,
			n,
			|| (proptest::collection::vec((0u8..3, 0u8..4), 2..130), proptest::collection::vec(any::<u8>(), 0..140), any::<u16>(), any::<u16>(), 0u8..4),
			|(entries, ch, p, q, newv)| wide_duplicates_case(entries, ch, *p, *q, *newv),
			|(entries, ch, p, q, newv)| json!({"entries": entries, "choices": ch, "p": p, "q": q, "newv": newv}),
		);
		ctx.add(fam);
	}
	// objects reached through operation histories (removals, collapses, sorts), not only built in one go
	if ctx.wants("H_after_histories") {
		let n = ctx.pick(20_000, 300_000);
		let keys: Vec<String> = vec!["a".into(), "\u{e000}".into(), "\u{10000}".into()];
		let fam = Fam::new("H_after_histories", "proptest: an object produced by a random history of C06 operations over 3 keys, one of them above U+FFFF and one in U+E000..U+FFFF (pushes, front insertions, removals by key/position/iterator, insert collapses, sorts, canonicalizations, clones) compared with a rotated rebuild of its final entry list (equal) and with a one-value mutation of that rebuild (expectation from the normal form), both argument orders; non-trivial = the history contains a removal and the final object has a duplicated key", false);
		let ks = keys.clone();
		let fam = run_proptest(
			ctx,
			fam,
			n,
			move || (proptest::collection::vec(super::c06::arb_op(ks.clone(), true), 2..40), any::<u16>(), any::<u16>()),
			|(ops, rot, mutsel)| after_history_case(ops, *rot, *mutsel),
			|(ops, rot, mutsel)| { let mut j = super::c06::ops_json(ops); j["rot"] = json!(rot); j["mutsel"] = json!(mutsel); j },
		);
		ctx.add(fam);
	}
	ctx.assume("reference: two values are unordered-equal iff their normal forms (entries sorted recursively by key then normal form) are identical");
}

pub fn replay(family: &str, case: &J) -> Result<(), String> {
	if family == "D_wide_duplicates" {
		let entries: Vec<(u8, u8)> = case["entries"].as_array().ok_or("bad case")?.iter().map(|e| (e[0].as_u64().unwrap() as u8, e[1].as_u64().unwrap() as u8)).collect();
		let ch: Vec<u8> = case["choices"].as_array().ok_or("bad case")?.iter().map(|x| x.as_u64().unwrap() as u8).collect();
		return match wide_duplicates_case(&entries, &ch, case["p"].as_u64().unwrap() as u16, case["q"].as_u64().unwrap() as u16, case["newv"].as_u64().unwrap() as u8).verdict {
			Ok(()) => Ok(()),
			Err((m, _)) => Err(m),
		};
	}
	if family == "H_after_histories" {
		let ops: Vec<super::c06::Op> = case["ops"].as_array().ok_or("bad case")?.iter().map(super::c06::dec_op).collect();
		return match after_history_case(&ops, case["rot"].as_u64().unwrap() as u16, case["mutsel"].as_u64().unwrap() as u16).verdict {
			Ok(()) => Ok(()),
			Err((m, _)) => Err(m),
		};
	}
	if family == "G_shuffle_and_mutate" {
		let v = RefValue::decode(&case["value"]);
		let ch: Vec<u8> = case["choices"].as_array().unwrap().iter().map(|x| x.as_u64().unwrap() as u8).collect();
		return match shuffle_case(&v, &ch, case["sel"].as_u64().unwrap() as u16, case["kind"].as_u64().unwrap() as u8).verdict {
			Ok(()) => Ok(()),
			Err((m, _)) => Err(m),
		};
	}
	let a = RefValue::decode(&case["a"]);
	let b = RefValue::decode(&case["b"]);
	pair_property(&a.to_value(), &b.to_value(), normal_form(&a) == normal_form(&b), true)
}
