//! C17 — Value's own Serialize / Deserialize implementations preserve the JSON value.
use crate::framework::{run_proptest, Ctx, Fam, Outcome};
use crate::gen;
use crate::refprint;
use crate::refvalue::RefValue;
use json_syntax::Value;
use proptest::prelude::*;
use serde_json::{json, Value as J};

pub const TOKEN: &str = "$serde_json::private::Number";
pub const SIG_A: &str = "C17-a:integer_syntax_number_beyond_64_bits_cannot_be_serialized";
pub const SIG_B: &str = "C17-b:decimal_with_more_than_19_significant_digits_deserializes_one_ulp_off";
pub const SIG_D: &str = "C17-d:number_beyond_the_finite_double_range_deserializes_as_null";
pub const SIG_C: &str = "C17-c:object_whose_first_key_is_the_private_number_token_deserializes_as_a_number";

fn sig_digits(n: &str) -> usize {
	let m = n.split(['e', 'E']).next().unwrap();
	let ds: String = m.chars().filter(|c| c.is_ascii_digit()).collect();
	ds.trim_start_matches('0').len()
}

/// Class (a): integer syntax (no '.') that does not fit i64/u64 — includes every exponent-without-fraction spelling.
fn is_class_a(n: &str) -> bool {
	!n.contains('.') && n.parse::<i64>().is_err() && n.parse::<u64>().is_err()
}

pub fn in_double_range(n: &str) -> bool {
	n.parse::<f64>().map(|f| f.is_finite()).unwrap_or(false)
}

/// Expected result of serializing with the crate's own serializer: -0 loses its
/// sign, duplicate keys collapse to the first position holding the last value.
fn serialize_model(v: &RefValue) -> RefValue {
	match v {
		RefValue::Num(n) => {
			if !n.contains('.') {
				if let Ok(i) = n.parse::<i64>() {
					return RefValue::Num(i.to_string());
				}
				if let Ok(u) = n.parse::<u64>() {
					return RefValue::Num(u.to_string());
				}
			}
			RefValue::Num(n.clone())
		}
		RefValue::Arr(a) => RefValue::Arr(a.iter().map(serialize_model).collect()),
		RefValue::Obj(o) => {
			let mut out: Vec<(String, RefValue)> = vec![];
			for (k, x) in o {
				let m = serialize_model(x);
				match out.iter_mut().find(|(ok, _)| ok == k) {
					Some(slot) => slot.1 = m,
					None => out.push((k.clone(), m)),
				}
			}
			RefValue::Obj(out)
		}
		other => other.clone(),
	}
}

fn ulps(a: f64, b: f64) -> u64 {
	if a == b {
		return 0;
	}
	let ia = a.to_bits() as i64;
	let ib = b.to_bits() as i64;
	let key = |i: i64| if i < 0 { i64::MIN - i } else { i };
	(key(ia) - key(ib)).unsigned_abs()
}

/// Same structure, every number the same integer or the same double.
/// Returns Err(Some(sig)) for a known-finding class, Err(None)+message otherwise.
fn same_modulo_number_spelling(expected: &RefValue, got: &RefValue, path: &str, exact_floats: &dyn Fn(&str) -> bool) -> Result<(), (String, Option<&'static str>)> {
	match (expected, got) {
		(RefValue::Num(a), RefValue::Num(b)) => {
			let int_a = a.parse::<i128>().ok().filter(|_| !a.contains(['.', 'e', 'E']));
			if let Some(i) = int_a {
				if let Ok(u) = b.parse::<i128>() {
					if u == i {
						return Ok(());
					}
				}
				if (i64::MIN as i128..=u64::MAX as i128).contains(&i) {
					return Err((format!("{path}: integer {a} became {b}"), None));
				}
			}
			let fa: f64 = a.parse().unwrap();
			let fb: f64 = b.parse().unwrap();
			if fa == fb {
				return Ok(());
			}
			if !exact_floats(a) {
				return Ok(()); // exactness not attainable for this token (decided by the caller), counted there
			}
			if sig_digits(a) > 19 && ulps(fa, fb) <= 1 {
				return Err((format!("{path}: {a} (more than 19 significant digits) became {b}: one ulp off"), Some(SIG_B)));
			}
			Err((format!("{path}: number {a} became {b} ({} ulps apart)", ulps(fa, fb)), None))
		}
		(RefValue::Arr(a), RefValue::Arr(b)) => {
			if a.len() != b.len() {
				return Err((format!("{path}: array length {} became {}", a.len(), b.len()), None));
			}
			for (i, (x, y)) in a.iter().zip(b).enumerate() {
				same_modulo_number_spelling(x, y, &format!("{path}[{i}]"), exact_floats)?;
			}
			Ok(())
		}
		(RefValue::Obj(a), RefValue::Obj(b)) => {
			let ka: Vec<&str> = a.iter().map(|(k, _)| k.as_str()).collect();
			let kb: Vec<&str> = b.iter().map(|(k, _)| k.as_str()).collect();
			if ka != kb {
				return Err((format!("{path}: keys {ka:?} became {kb:?}"), None));
			}
			for ((k, x), (_, y)) in a.iter().zip(b) {
				same_modulo_number_spelling(x, y, &format!("{path}.{k}"), exact_floats)?;
			}
			Ok(())
		}
		(x, y) if x == y => Ok(()),
		(RefValue::Num(a), RefValue::Null) if !in_double_range(a) => Err((format!("{path}: {a} (beyond the finite double range) became null"), Some(SIG_D))),
		(x, y) => Err((format!("{path}: {x:?} became {y:?}"), None)),
	}
}

fn first_key_is_token(v: &RefValue) -> bool {
	v.any(&|x| matches!(x, RefValue::Obj(o) if o.first().map(|(k, _)| k == TOKEN).unwrap_or(false)))
}

pub struct Report {
	pub classes: Vec<&'static str>,
	pub nontrivial: bool,
}

pub fn property(v: &RefValue) -> Result<Report, (String, Option<&'static str>)> {
	let value = v.to_value();
	let mut nums = vec![];
	v.all_numbers(&mut nums);
	let has_a = nums.iter().any(|n| is_class_a(n));
	let dup = v.has_duplicate_keys();
	let token_first = first_key_is_token(v);
	let mut classes = vec![];

	// --- Serialize with the crate's own serializer
	match json_syntax::to_value(&value) {
		Ok(s) => {
			if has_a {
				// the known finding did not show: compare as usual for everything else
				classes.push("class_a_serialized(finding_absent)");
			} else {
				let expected = serialize_model(v);
				let got = RefValue::from_value(&s);
				if got != expected {
					return Err((format!("to_value(&value) = {got:?}, expected {expected:?} (exact copy except -0 -> 0 and duplicate keys collapsed to first position / last value)"), None));
				}
			}
		}
		Err(e) => {
			if has_a {
				return Err((format!("to_value(&value) failed ({e}) on an integer-syntax number beyond 64 bits"), Some(SIG_A)));
			}
			return Err((format!("to_value(&value) failed: {e}"), None));
		}
	}

	// --- Deserialize a Value from a Value. For duplicate-carrying inputs the property text does not say whether
	// duplicates are kept ("same structure") or collapse as in serialization: either outcome is accepted, anything else is not.
	if dup && !has_a && !token_first {
		if let Ok(d) = json_syntax::from_value::<Value>(value.clone()) {
			let got = RefValue::from_value(&d);
			let kept = same_modulo_number_spelling(v, &got, "$", &|_| true);
			let collapsed = same_modulo_number_spelling(&serialize_model(v), &got, "$", &|_| true);
			if let (Err((m1, s1)), Err((m2, s2))) = (&kept, &collapsed) {
				// when one of the two comparisons fails only on a number of a known class, it is that finding showing
				// inside a duplicate-carrying value, not a new one
				return Err((format!("from_value::<Value> of a value with duplicate keys is neither the same structure ({m1}) nor the serialization-style collapse ({m2})"), s1.or(*s2)));
			}
		}
	}
	if !dup {
		match json_syntax::from_value::<Value>(value.clone()) {
			Ok(d) => {
				let got = RefValue::from_value(&d);
				match same_modulo_number_spelling(v, &got, "$", &|_| true) {
					Ok(()) => {}
					Err((m, sig)) => {
						if token_first {
							return Err((format!("from_value::<Value>: {m}"), Some(SIG_C)));
						}
						return Err((format!("from_value::<Value>: {m}"), sig));
					}
				}
			}
			Err(e) => {
				if token_first {
					return Err((format!("from_value::<Value> failed: {e}"), Some(SIG_C)));
				}
				return Err((format!("from_value::<Value> failed: {e}"), None));
			}
		}

		// --- Deserialize from JSON text through serde_json (self-describing deserializer)
		let text = refprint::compact(v);
		let ours: Result<Value, _> = serde_json::from_str(&text);
		let theirs: Result<J, _> = serde_json::from_str(&text);
		match (ours, theirs) {
			(Ok(o), Ok(t)) => {
				let got = RefValue::from_value(&o);
				// exactness is demanded only where serde_json's own float parser is exact on the token
				let exact = |tok: &str| serde_json::from_str::<f64>(tok).ok() == tok.parse::<f64>().ok();
				match same_modulo_number_spelling(v, &got, "$", &exact) {
					Ok(()) => {}
					Err((m, sig)) => {
						if token_first {
							return Err((format!("serde_json::from_str::<Value>: {m}"), Some(SIG_C)));
						}
						return Err((format!("serde_json::from_str::<Value>({text:?}): {m}"), sig));
					}
				}
				// differential: same integers/doubles as serde_json's own Value delivers
				let via = RefValue::from_value(&Value::from_serde_json(t));
				let mut a = vec![];
				got.all_numbers(&mut a);
				let mut b = vec![];
				via.all_numbers(&mut b);
				// serde_json's map is sorted; compare multisets of doubles
				let mut fa: Vec<u64> = a.iter().map(|n| n.parse::<f64>().unwrap()).map(|f| if f == 0.0 { 0 } else { f.to_bits() }).collect();
				let mut fb: Vec<u64> = b.iter().map(|n| n.parse::<f64>().unwrap()).map(|f| if f == 0.0 { 0 } else { f.to_bits() }).collect();
				fa.sort();
				fb.sort();
				if fa != fb && !token_first {
					return Err((format!("serde_json::from_str::<json_syntax::Value> and ::<serde_json::Value> deliver different numbers for {text:?}"), None));
				}
			}
			(Err(_), Err(_)) => classes.push("text_rejected_by_serde_json_itself(out_of_range)"),
			(Ok(_), Err(e)) => return Err((format!("serde_json rejects {text:?} ({e}) but deserializing a json_syntax::Value from it succeeds"), None)),
			(Err(e), Ok(_)) => {
				if token_first {
					return Err((format!("serde_json::from_str::<Value> failed: {e}"), Some(SIG_C)));
				}
				return Err((format!("serde_json::from_str::<json_syntax::Value>({text:?}) failed: {e}"), None));
			}
		}
	}

	let frac = nums.iter().any(|n| n.contains('.'));
	let big_obj = v.any(&|x| matches!(x, RefValue::Obj(o) if o.len() >= 2));
	if frac {
		classes.push("fraction_number");
	}
	if dup {
		classes.push("duplicate_keys");
	}
	if nums.iter().any(|n| sig_digits(n) > 19) {
		classes.push("gt19_digits");
	}
	if nums.iter().any(|n| !in_double_range(n)) {
		classes.push("beyond_double_range");
	}
	Ok(Report { classes, nontrivial: frac && big_obj })
}

/// Numbers outside the two known-finding classes: integers within 64 bits,
/// fractions (<= 19 significant digits for the deserialization clauses to be
/// exact), exponent forms always with a fraction.
fn arb_safe_number() -> BoxedStrategy<String> {
	prop_oneof![
		3 => any::<i64>().prop_map(|i| i.to_string()),
		2 => any::<u64>().prop_map(|u| u.to_string()),
		1 => prop::sample::select(vec!["0", "-0", "0.0", "-0.0", "1.5", "-1.5e3", "1.0E+2", "0.1", "18446744073709551615", "-9223372036854775808", "1.7976931348623157e308", "5.0e-324", "1.0e-400", "123456789.123456789e-5"]).prop_map(|s| s.to_string()),
		3 => (any::<bool>(), 0u64..1_000_000_000, proptest::collection::vec(0u8..10, 1..10), proptest::option::of((prop::sample::select(vec!["e", "E"]), prop::sample::select(vec!["", "+", "-"]), 0u32..40)))
			.prop_map(|(neg, int, frac, exp)| {
				let f: String = frac.into_iter().map(|d| (b'0' + d) as char).collect();
				let e = exp.map(|(e, s, x)| format!("{e}{s}{x}")).unwrap_or_default();
				format!("{}{int}.{f}{e}", if neg { "-" } else { "" })
			}),
	]
	.boxed()
}

fn arb_value_with(number: BoxedStrategy<String>, dups: bool, token_rate: u32) -> BoxedStrategy<RefValue> {
	let leaf = prop_oneof![
		1 => Just(RefValue::Null),
		1 => any::<bool>().prop_map(RefValue::Bool),
		4 => number.prop_map(RefValue::Num),
		3 => gen::arb_string().prop_map(RefValue::Str),
	];
	// the private token itself, and keys that merely look like it (same length, same ends, prefixes, suffixes):
	// only the exact token may be special, and only in first position
	let lookalike = prop::sample::select(vec![
		"$xxxxxxxxxxxxxxxxxxxxxNumber", "$serde_json::private::Numbex", "$serde_json::private::Numbe", "$serde_json::private::Number ", "$serde_json::private::number", "$serde_json::private::RawValue", "$serde_json__private__Number", "serde_json::private::Number$", "$", "$serde_json::private::Number\u{0}",
	])
	.prop_map(|s| s.to_string());
	let key = prop_oneof![20 => gen::arb_key(dups), token_rate => Just(TOKEN.to_string()), token_rate.max(1) => lookalike];
	let wide = proptest::collection::vec((prop_oneof![3 => gen::arb_long_key(), 1 => gen::arb_key(dups)], leaf.clone()), 9..90).prop_map(RefValue::Obj);
	let tree = leaf.prop_recursive(4, 48, 6, move |inner| {
		prop_oneof![
			1 => proptest::collection::vec(inner.clone(), 0..=5).prop_map(RefValue::Arr),
			2 => proptest::collection::vec((key.clone(), inner), 0..=6).prop_map(RefValue::Obj),
		]
	});
	// large shapes (very wide, heavy duplication, deep chains) with their numbers kept outside the known classes
	let large = gen::arb_large_value(dups).prop_map(|v| {
		gen::map_numbers(v, &|n| if is_class_a(&n) || sig_digits(&n) > 19 || !in_double_range(&n) { "1.5".to_string() } else { n })
	});
	let s = prop_oneof![8 => tree, 1 => wide.clone(), 1 => proptest::collection::vec(wide, 1..4).prop_map(RefValue::Arr), 1 => large];
	if dups {
		// duplicated keys whose successive values are equal up to the order of nested entries (or identical):
		// an entry of some object is repeated later in that object with a shuffled copy of its value
		(s, proptest::collection::vec(any::<u8>(), 0..48), any::<u16>())
			.prop_map(|(v, ch, sel)| if sel % 4 == 0 { repeat_shuffled(v, &mut gen::Chooser::new(&ch)) } else { v })
			.boxed()
	} else {
		s.prop_map(gen::dedup_keys).boxed()
	}
}

/// In the first object (pre-order) that has an entry whose value contains an object with >= 2 entries, repeats that
/// entry at a later position with its value shuffled at every level.
fn repeat_shuffled(v: RefValue, ch: &mut gen::Chooser) -> RefValue {
	fn has_wide_object(v: &RefValue) -> bool {
		v.any(&|x| matches!(x, RefValue::Obj(o) if o.len() >= 2))
	}
	fn go(v: RefValue, ch: &mut gen::Chooser, done: &mut bool) -> RefValue {
		match v {
			RefValue::Arr(a) => RefValue::Arr(a.into_iter().map(|x| go(x, ch, done)).collect()),
			RefValue::Obj(mut o) => {
				if !*done {
					if let Some(i) = o.iter().position(|(_, x)| has_wide_object(x)) {
						*done = true;
						let copy = (o[i].0.clone(), super::c15::shuffle(&o[i].1, ch));
						let at = i + 1 + (ch.next() as usize * (o.len() - i)) / 256;
						o.insert(at, copy);
						return RefValue::Obj(o);
					}
				}
				RefValue::Obj(o.into_iter().map(|(k, x)| (k, go(x, ch, done))).collect())
			}
			other => other,
		}
	}
	go(v, ch, &mut false)
}

/// Moves the private token away from the first position (it is only special there).
fn defuse_token(v: RefValue) -> RefValue {
	match v {
		RefValue::Arr(a) => RefValue::Arr(a.into_iter().map(defuse_token).collect()),
		RefValue::Obj(o) => {
			let mut es: Vec<(String, RefValue)> = o.into_iter().map(|(k, x)| (k, defuse_token(x))).collect();
			if es.first().map(|(k, _)| k == TOKEN).unwrap_or(false) {
				if es.iter().all(|(k, _)| k == TOKEN) {
					es.insert(0, ("not-the-token".into(), RefValue::Null));
				} else {
					let i = es.iter().position(|(k, _)| k != TOKEN).unwrap();
					es.swap(0, i);
				}
			}
			RefValue::Obj(es)
		}
		other => other,
	}
}

fn outcome(r: Result<Report, (String, Option<&'static str>)>) -> Outcome {
	match r {
		Ok(rep) => Outcome::ok(rep.nontrivial, rep.classes),
		Err((m, Some(sig))) => Outcome::fail_sig(m, sig),
		Err((m, None)) => Outcome::fail(m),
	}
}

pub fn run(ctx: &mut Ctx) {
	if ctx.wants("G_values_outside_known_classes") {
		let n = ctx.pick(200_000, 800_000);
		let fam = Fam::new("G_values_outside_known_classes", "proptest: values whose numbers avoid the two known classes by construction (64-bit integers; fractions with <= 19 digits, exponents always with a fraction; the private token never as first key, but allowed elsewhere) with duplicate-free and duplicate-carrying objects: to_value(&v) == model (exact copy, -0 -> 0, duplicates collapse to first position / last value); from_value::<Value>(v) and serde_json::from_str::<Value>(compact text) give the same structure and the same integer/double per number (text clause: differential against serde_json's own Value, exactness where serde_json's parser is exact); non-trivial = a fraction number and an object with >= 2 entries", false);
		let fam = run_proptest(
			ctx,
			fam,
			n,
			|| (any::<bool>()).prop_flat_map(|d| arb_value_with(arb_safe_number(), d, 1).prop_map(defuse_token)),
			|v| outcome(property(v)),
			|v| json!({"value": v.encode()}),
		);
		ctx.add(fam);
	}
	if ctx.wants("A_all_number_spellings") {
		let n = ctx.pick(200_000, 800_000);
		let fam = Fam::new("A_all_number_spellings", "proptest: values with *every* number spelling (integers beyond 64 bits, exponent without fraction, up to 400 digits, beyond the double range): failures matching the class predicates of the known findings (a: integer syntax not representable in 64 bits cannot be serialized; b: > 19 significant digits may deserialize one ulp off, never more) are counted as known; everything else must hold; non-trivial as above", false);
		let fam = run_proptest(
			ctx,
			fam,
			n,
			|| arb_value_with(prop_oneof![4 => gen::arb_number(true), 1 => super::c09::arb_respelled_double()].boxed(), false, 0),
			|v| outcome(property(v)),
			|v| json!({"value": v.encode()}),
		);
		ctx.add(fam);
	}
	if ctx.wants("K_known_finding_probes") {
		ctx.begin_family("K_known_finding_probes");
		let mut fam = Fam::new("K_known_finding_probes", "fixed probes that re-check whether each open known finding still reproduces (a: 1e5, 18446744073709551616; b: 3.9691103336428134379e14; c: {token: \"1\"}), plus neighbours that must hold", true);
		let probes: Vec<RefValue> = vec![
			RefValue::num("1e5"),
			RefValue::num("18446744073709551616"),
			RefValue::num("-9223372036854775809"),
			RefValue::Arr(vec![RefValue::num("3.9691103336428134379e14")]),
			RefValue::Obj(vec![(TOKEN.into(), RefValue::str("1"))]),
			RefValue::Obj(vec![(TOKEN.into(), RefValue::Null), ("b".into(), RefValue::Null)]),
			RefValue::Obj(vec![("a".into(), RefValue::Null), (TOKEN.into(), RefValue::str("1"))]),
			RefValue::num("1.0e5"),
			RefValue::num("18446744073709551615"),
			RefValue::Obj(vec![("k".into(), RefValue::num("1")), ("k".into(), RefValue::num("2")), ("j".into(), RefValue::Null), ("k".into(), RefValue::num("3"))]),
		];
		for p in &probes {
			fam.tick();
			match crate::framework::guarded(|| property(p)) {
				Ok(Ok(_)) => fam.nontrivial(),
				Ok(Err((m, sig))) => fam.fail(json!({"value": p.encode()}), m, sig.map(|s| s.to_string())),
				Err(m) => fam.fail(json!({"value": p.encode()}), m, None),
			}
		}
		fam.sample(|| json!({"value": probes[9].encode(), "expected_to_value": "{\"k\":3,\"j\":null}"}));
		ctx.add(fam);
	}
	ctx.assume("serde_json is built with the features /repo requests (no float_roundtrip, no arbitrary_precision): in the text clause json-syntax's visitor only ever sees serde_json's f64, so exactness is demanded only for tokens on which serde_json's own parser is exact");
	ctx.assume("the collapse of duplicate keys is asserted for serialization (as the property states); deserialization clauses are asserted on duplicate-free values");
}

pub fn replay(_family: &str, case: &J) -> Result<(), String> {
	let v = RefValue::decode(&case["value"]);
	match property(&v) {
		Ok(_) => Ok(()),
		Err((m, sig)) => Err(format!("{m}{}", sig.map(|s| format!(" [known-finding signature {s}]")).unwrap_or_default())),
	}
}
