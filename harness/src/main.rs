use jsv::framework::{self, Ctx, Tier};

#[global_allocator]
static GLOBAL: jsv::tlalloc::TlAlloc = jsv::tlalloc::TlAlloc;

use jsv::props;
use serde_json::json;
use std::os::unix::process::ExitStatusExt;
use std::process::{exit, Command};
use std::time::{Duration, Instant};

fn usage() -> ! {
	eprintln!(
		"usage:\n  jsv check <ID> [--tier quick|thorough]\n  jsv replay <file>\n  jsv list\n(env: VERIF_SEED, VERIF_TIER)"
	);
	exit(2)
}

fn tier_from(args: &[String]) -> Tier {
	let mut tier = std::env::var("VERIF_TIER").ok();
	let mut i = 0;
	while i < args.len() {
		if args[i] == "--tier" && i + 1 < args.len() {
			tier = Some(args[i + 1].clone());
			i += 1;
		} else if args[i] == "quick" || args[i] == "thorough" {
			tier = Some(args[i].clone());
		}
		i += 1;
	}
	match tier.as_deref() {
		Some("thorough") => Tier::Thorough,
		_ => Tier::Quick,
	}
}

fn seed() -> u64 {
	std::env::var("VERIF_SEED")
		.ok()
		.and_then(|s| s.trim().parse::<i128>().ok())
		.map(|v| v as u64)
		.unwrap_or(0)
}

fn main() {
	let args: Vec<String> = std::env::args().collect();
	if args.len() < 2 {
		usage()
	}
	match args[1].as_str() {
		"list" => {
			for p in props::ALL {
				println!("{p}");
			}
		}
		"check" => {
			if args.len() < 3 {
				usage()
			}
			let prop = props::intern(&args[2]).unwrap_or_else(|| {
				eprintln!("unknown property {}", args[2]);
				exit(2)
			});
			let tier = tier_from(&args[3..]);
			exit(parent(prop, tier, seed()));
		}
		"worker" => {
			let prop = props::intern(&args[2]).expect("property");
			let tier = if args[3] == "thorough" { Tier::Thorough } else { Tier::Quick };
			let seed: u64 = args[4].parse().expect("seed");
			framework::install_panic_hook();
			let threads = std::env::var("JSV_THREADS").ok().and_then(|s| s.parse().ok()).unwrap_or(16usize);
			rayon::ThreadPoolBuilder::new()
				.num_threads(threads)
				.stack_size(16 << 20)
				.build_global()
				.ok();
			let mut ctx = Ctx::new(prop, tier, seed);
			props::run(&mut ctx);
			exit(ctx.finish());
		}
		"replay" => {
			if args.len() < 3 {
				usage()
			}
			framework::install_panic_hook();
			let j = framework::read_replay(std::path::Path::new(&args[2]));
			let prop = j["property"].as_str().expect("property");
			let family = j["family"].as_str().unwrap_or("");
			if family == "worker-crash" {
				// the reproducible unit is the whole family: re-run the check
				let prop = props::intern(prop).expect("property");
				let tier = if j["tier"] == "thorough" { Tier::Thorough } else { Tier::Quick };
				exit(parent(prop, tier, j["seed"].as_u64().unwrap_or(0)));
			}
			match framework::guarded(|| props::replay(prop, family, &j["case"])) {
				Ok(Ok(())) => {
					println!("replay: property {prop} holds on this case");
					exit(0)
				}
				Ok(Err(m)) if m.starts_with("UNSUPPORTED") => {
					eprintln!("INCONCLUSIVE: {m}");
					exit(2)
				}
				Ok(Err(m)) => {
					println!("VIOLATION property={} replay={}", prop, args[2]);
					eprintln!("  {}", framework::truncate(&m, 4000));
					exit(1)
				}
				Err(p) => {
					println!("VIOLATION property={} replay={}", prop, args[2]);
					eprintln!("  {}", framework::truncate(&p, 4000));
					exit(1)
				}
			}
		}
		"child" => exit(jsv::props::child_main(&args[2..])),
		_ => usage(),
	}
}

/// Runs the worker in a child process and interprets its fate, so that an
/// abort or a stack overflow inside json-syntax is reported, not suffered.
fn parent(prop: &'static str, tier: Tier, seed: u64) -> i32 {
	let exe = std::env::current_exe().expect("current_exe");
	let t0 = Instant::now();
	framework::clear_progress(prop);
	let limit = match tier {
		Tier::Quick => Duration::from_secs(45 * 60),
		Tier::Thorough => Duration::from_secs(6 * 3600),
	};
	let mut child = Command::new(exe)
		.args(["worker", prop, tier.name(), &seed.to_string()])
		.spawn()
		.expect("cannot spawn worker");
	let child_pid = child.id();
	let status = loop {
		match child.try_wait().expect("wait") {
			Some(s) => break s,
			None => {
				if t0.elapsed() > limit {
					let _ = child.kill();
					let _ = child.wait();
					eprintln!("INCONCLUSIVE: watchdog ({}s) expired for {prop}", limit.as_secs());
					return 2;
				}
				std::thread::sleep(Duration::from_millis(50));
			}
		}
	};
	if let Some(code) = status.code() {
		return match code {
			0 | 1 | 2 => {
				// thorough tier: coverage-guided campaign with the same oracle inside the target
				match jsv::fuzzstage::run(prop, tier, seed) {
					Some(f) => {
						if code == 1 || f.code == 1 {
							1
						} else if code == 2 || f.code == 2 {
							2
						} else {
							0
						}
					}
					None => code,
				}
			}
			other => {
				eprintln!("INCONCLUSIVE: worker for {prop} exited with unexpected code {other} (harness failure)");
				2
			}
		};
	}
	let sig = status.signal().unwrap_or(0);
	let progress = framework::read_progress(prop).unwrap_or_else(|| "unknown".into());
	if sig == 9 {
		eprintln!("INCONCLUSIVE: worker for {prop} was killed (SIGKILL, out of memory?) at {progress}");
		return 2;
	}
	// SIGSEGV (stack overflow), SIGABRT (panic while unwinding), SIGBUS, SIGILL:
	// the code under test brought the process down.
	let vdir = framework::verif_dir();
	let _ = std::fs::create_dir_all(vdir.join("replays"));
	let _ = std::fs::create_dir_all(vdir.join("evidence"));
	// cases that were in flight when a panic started (panic inside a destructor => abort)
	let inflight = framework::collect_inflight(child_pid);
	let mut attributed = 0;
	for (i, (tmp, mut j)) in inflight.into_iter().enumerate() {
		j["seed"] = json!(seed);
		j["tier"] = json!(tier.name());
		j["signal"] = json!(sig);
		let path = vdir.join("replays").join(format!("{prop}-abort-{}-{seed}-{i}.json", tier.name()));
		if std::fs::write(&path, serde_json::to_string_pretty(&j).unwrap()).is_ok() {
			println!("VIOLATION property={} replay={}", prop, path.display());
			eprintln!("  family={} : {}", j["family"].as_str().unwrap_or("?"), framework::truncate(j["message"].as_str().unwrap_or("?"), 2000));
			attributed += 1;
		}
		let _ = std::fs::remove_file(tmp);
	}
	let path = vdir.join("replays").join(format!("{prop}-crash-{}-{seed}.json", tier.name()));
	let body = json!({
		"property": prop,
		"family": "worker-crash",
		"case": {"progress": progress, "signal": sig},
		"message": format!("the check process died with signal {sig} ({progress}); replaying re-runs the check"),
		"seed": seed,
		"tier": tier.name(),
	});
	let _ = std::fs::write(&path, serde_json::to_string_pretty(&body).unwrap());
	let evidence = json!({
		"property_id": prop,
		"tier": tier.name(),
		"seed": seed,
		"level": "other",
		"coverage": {"explanation": format!("the worker process died with signal {sig} at {progress}; no counts are available for this run")},
		"wall_s": t0.elapsed().as_secs_f64(),
		"violations": 1,
	});
	let _ = std::fs::write(
		vdir.join("evidence").join(format!("{prop}.json")),
		serde_json::to_string_pretty(&evidence).unwrap(),
	);
	if attributed == 0 {
		println!("VIOLATION property={} replay={}", prop, path.display());
	}
	1
}
