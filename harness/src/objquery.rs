//! R4 helpers: linear-scan oracle for every key-based query of `Object`, and
//! validation of the hash index through the verification hook.
use crate::refvalue::RefValue;
use json_syntax::object::{Entry, Key};
use json_syntax::Object;
use std::collections::BTreeMap;

fn same(v: &json_syntax::Value, m: &RefValue) -> bool {
	&RefValue::from_value(v) == m
}

fn same_entry(e: &Entry, m: &(String, RefValue)) -> bool {
	e.key.as_str() == m.0 && same(&e.value, &m.1)
}

/// Checks every key-based query of `obj` for `key` against a linear scan of `model`.
pub fn check_key(obj: &Object, model: &[(String, RefValue)], key: &str) -> Result<(), String> {
	let positions: Vec<usize> = model.iter().enumerate().filter(|(_, (k, _))| k == key).map(|(i, _)| i).collect();
	let k_small: Key = key.into();
	macro_rules! both {
		($name:literal, $call:ident, $conv:expr, $expected:expr) => {{
			let a: Vec<_> = obj.$call(key).map($conv).collect();
			let b: Vec<_> = obj.$call(&k_small).map($conv).collect();
			if a != b {
				return Err(format!("{}({key:?}) differs between a &str and a Key probe", $name));
			}
			if a != $expected {
				return Err(format!("{}({key:?}) = {:?}, linear scan = {:?}", $name, a, $expected));
			}
		}};
	}
	// contains_key
	if obj.contains_key(key) != !positions.is_empty() || obj.contains_key(&k_small) != !positions.is_empty() {
		return Err(format!("contains_key({key:?}) = {}, linear scan says {}", obj.contains_key(key), !positions.is_empty()));
	}
	// index_of / redundant_index_of
	if obj.index_of(key) != positions.first().copied() || obj.index_of(&k_small) != positions.first().copied() {
		return Err(format!("index_of({key:?}) = {:?}, linear scan = {:?}", obj.index_of(key), positions.first()));
	}
	if obj.redundant_index_of(key) != positions.get(1).copied() {
		return Err(format!("redundant_index_of({key:?}) = {:?}, linear scan = {:?}", obj.redundant_index_of(key), positions.get(1)));
	}
	// indexes_of
	{
		let a: Vec<usize> = obj.indexes_of(key).collect();
		let b: Vec<usize> = obj.indexes_of(&k_small).collect();
		if a != positions || b != positions {
			return Err(format!("indexes_of({key:?}) = {a:?}, linear scan = {positions:?}"));
		}
	}
	// get / get_with_index / get_entries / get_entries_with_index: compare by position identity
	let addr = |v: &json_syntax::Value| v as *const _ as usize;
	let expected_vals: Vec<usize> = positions.iter().map(|&i| addr(&obj.entries()[i].value)).collect();
	both!("get", get, |v| addr(v), expected_vals);
	let expected_iv: Vec<(usize, usize)> = positions.iter().map(|&i| (i, addr(&obj.entries()[i].value))).collect();
	both!("get_with_index", get_with_index, |(i, v)| (i, addr(v)), expected_iv);
	let eaddr = |e: &Entry| e as *const _ as usize;
	let expected_e: Vec<usize> = positions.iter().map(|&i| eaddr(&obj.entries()[i])).collect();
	both!("get_entries", get_entries, |e| eaddr(e), expected_e);
	let expected_ie: Vec<(usize, usize)> = positions.iter().map(|&i| (i, eaddr(&obj.entries()[i]))).collect();
	both!("get_entries_with_index", get_entries_with_index, |(i, e)| (i, eaddr(e)), expected_ie);
	// the values reached are the model's values
	for (n, v) in obj.get(key).enumerate() {
		if !same(v, &model[positions[n]].1) {
			return Err(format!("get({key:?}) #{n} is not the value of entry {}", positions[n]));
		}
	}
	// get_unique / get_unique_entry
	match (obj.get_unique(key), positions.len()) {
		(Ok(None), 0) => {}
		(Ok(Some(v)), 1) if addr(v) == expected_vals[0] => {}
		(Err(d), n) if n >= 2 && eaddr(d.0) == expected_e[0] && eaddr(d.1) == expected_e[1] => {}
		(r, n) => return Err(format!("get_unique({key:?}) = {:?} with {n} matching entries", r.map(|o| o.map(|_| "value")).map_err(|_| "Duplicate"))),
	}
	match (obj.get_unique_entry(key), positions.len()) {
		(Ok(None), 0) => {}
		(Ok(Some(e)), 1) if eaddr(e) == expected_e[0] => {}
		(Err(d), n) if n >= 2 && eaddr(d.0) == expected_e[0] && eaddr(d.1) == expected_e[1] => {}
		(r, n) => return Err(format!("get_unique_entry({key:?}) = {:?} with {n} matching entries", r.map(|o| o.map(|_| "entry")).map_err(|_| "Duplicate"))),
	}
	Ok(())
}

/// Entries equal the model, global accessors agree, every key of the model
/// and of `extra_keys` is queried.
pub fn check_object(obj: &Object, model: &[(String, RefValue)], extra_keys: &[&str]) -> Result<(), String> {
	if obj.len() != model.len() || obj.is_empty() != model.is_empty() {
		return Err(format!("len() = {}, model has {} entries", obj.len(), model.len()));
	}
	let entries = obj.entries();
	if entries.len() != model.len() {
		return Err(format!("entries().len() = {}, model has {}", entries.len(), model.len()));
	}
	for (i, (e, m)) in entries.iter().zip(model).enumerate() {
		if !same_entry(e, m) {
			return Err(format!("entry {i} is {:?}: {:?}, model has {:?}: {:?}", e.key.as_str(), RefValue::from_value(&e.value), m.0, m.1));
		}
	}
	let it: Vec<usize> = obj.iter().map(|e| e as *const _ as usize).collect();
	let direct: Vec<usize> = entries.iter().map(|e| e as *const _ as usize).collect();
	if it != direct {
		return Err("iter() does not yield entries() in order".into());
	}
	match (obj.first(), model.first()) {
		(None, None) => {}
		(Some(e), Some(m)) if same_entry(e, m) => {}
		_ => return Err("first() disagrees with the model".into()),
	}
	match (obj.last(), model.last()) {
		(None, None) => {}
		(Some(e), Some(m)) if same_entry(e, m) => {}
		_ => return Err("last() disagrees with the model".into()),
	}
	let mut keys: Vec<&str> = model.iter().map(|(k, _)| k.as_str()).collect();
	keys.extend_from_slice(extra_keys);
	keys.sort();
	keys.dedup();
	for k in keys {
		check_key(obj, model, k)?;
	}
	check_index(obj)
}

/// Hook-based validation: buckets <-> distinct keys one-to-one, `rep` = first
/// position, `other` = remaining positions strictly ascending, all < len.
pub fn check_index(obj: &Object) -> Result<(), String> {
	let mut dump = obj.verif_index_dump();
	dump.sort();
	let mut expected: BTreeMap<&str, Vec<usize>> = BTreeMap::new();
	for (i, e) in obj.entries().iter().enumerate() {
		expected.entry(e.key.as_str()).or_default().push(i);
	}
	let mut exp: Vec<(usize, Vec<usize>)> = expected.values().map(|v| (v[0], v[1..].to_vec())).collect();
	exp.sort();
	if dump != exp {
		return Err(format!("key index is stale: buckets (rep, other) = {dump:?}, entries imply {exp:?}"));
	}
	Ok(())
}

/// Every object inside `v` answers key queries like a linear scan of its own entries and has a consistent index
/// (whatever route produced `v`).
pub fn self_consistent(v: &json_syntax::Value) -> Result<(), String> {
	check_all_objects(v, &RefValue::from_value(v), &["absent\u{4}key"])
}

/// Recursively checks every object inside `v` against the reference tree `m`
/// (which must have the same shape), probing `extra_keys` too.
pub fn check_all_objects(v: &json_syntax::Value, m: &RefValue, extra_keys: &[&str]) -> Result<(), String> {
	match (v, m) {
		(json_syntax::Value::Array(a), RefValue::Arr(b)) if a.len() == b.len() => {
			for (x, y) in a.iter().zip(b) {
				check_all_objects(x, y, extra_keys)?;
			}
			Ok(())
		}
		(json_syntax::Value::Object(o), RefValue::Obj(mo)) => {
			check_object(o, mo, extra_keys)?;
			for (e, (_, mv)) in o.entries().iter().zip(mo) {
				check_all_objects(&e.value, mv, extra_keys)?;
			}
			Ok(())
		}
		(a, b) => {
			if &RefValue::from_value(a) == b {
				Ok(())
			} else {
				Err(format!("value {:?} differs from the reference {:?}", RefValue::from_value(a), b))
			}
		}
	}
}
