//! R1: reference recogniser / decoder / fragment mapper for RFC 8259, written as
//! an explicit pushdown automaton over characters. Shares no code with
//! json-syntax. All positions are *character indices*; callers convert them to
//! byte offsets with a prefix table (UTF-8, UTF-16 or arbitrary lengths).
use crate::refvalue::RefValue;

#[derive(Clone, Copy, PartialEq, Eq, Debug)]
pub enum FragKind {
	Value,
	Entry,
	Key,
}

#[derive(Clone, Copy, PartialEq, Eq, Debug)]
pub struct Frag {
	pub kind: FragKind,
	/// First character of the fragment.
	pub start: usize,
	/// One past its last character.
	pub end: usize,
	pub volume: usize,
}

#[derive(Clone, Copy, PartialEq, Eq, Debug)]
pub enum SurKind {
	/// High surrogate escape not followed by a low surrogate escape.
	UnpairedHigh,
	/// Low surrogate escape not preceded by a high surrogate escape.
	LoneLow,
}

#[derive(Clone, Copy, PartialEq, Eq, Debug)]
pub struct SurEvent {
	pub kind: SurKind,
	pub unit: u16,
	/// Character index of the backslash of the offending escape.
	pub esc_start: usize,
	/// One past the last hex digit.
	pub esc_end: usize,
	/// One past the string element that follows the escape (the element whose
	/// arrival proves an unpaired high surrogate); equals `esc_end` for a lone
	/// low surrogate or when the closing quote follows.
	pub follow_end: usize,
	/// Value of the following `\u` escape when the following element is one.
	pub next_unit: Option<u32>,
}

#[derive(Clone, Debug, PartialEq, Eq)]
pub struct RefDoc {
	pub value: RefValue,
	pub frags: Vec<Frag>,
}

#[derive(Clone, Debug)]
pub struct RefParse {
	/// `Some((i, c))`: the automaton has no transition on character `i` (`c` is
	/// that character, `None` at end of input). `i` is therefore the length of
	/// the longest viable prefix, in characters.
	pub syntax_err: Option<(usize, Option<char>)>,
	/// Surrogate problems of the complete string elements inside the viable
	/// prefix, in document order.
	pub events: Vec<SurEvent>,
	/// Present iff the syntax is valid and a tree was requested. Strings are
	/// decoded with one U+FFFD per event (what the lenient options produce).
	pub doc: Option<RefDoc>,
	/// Maximum nesting depth reached.
	pub max_depth: usize,
	/// When the whole input is a viable but incomplete prefix: the shortest
	/// suffix that completes it to an accepted document.
	pub completion: Option<String>,
}

#[derive(Clone, Copy, PartialEq, Eq, Debug, Default)]
pub struct Leniency {
	pub truncated_pair: bool,
	pub invalid_codepoint: bool,
}

impl Leniency {
	pub const STRICT: Leniency = Leniency {
		truncated_pair: false,
		invalid_codepoint: false,
	};
	pub const ALL: [Leniency; 4] = [
		Leniency {
			truncated_pair: false,
			invalid_codepoint: false,
		},
		Leniency {
			truncated_pair: true,
			invalid_codepoint: false,
		},
		Leniency {
			truncated_pair: false,
			invalid_codepoint: true,
		},
		Leniency {
			truncated_pair: true,
			invalid_codepoint: true,
		},
	];
	pub fn permits(&self, e: &SurEvent) -> bool {
		match e.kind {
			SurKind::UnpairedHigh => self.truncated_pair,
			SurKind::LoneLow => self.invalid_codepoint,
		}
	}
}

impl RefParse {
	pub fn accepted(&self, l: Leniency) -> bool {
		self.syntax_err.is_none() && self.events.iter().all(|e| l.permits(e))
	}
	pub fn accepted_strict(&self) -> bool {
		self.syntax_err.is_none() && self.events.is_empty()
	}
	/// First event not permitted under `l`.
	pub fn first_offence(&self, l: Leniency) -> Option<&SurEvent> {
		self.events.iter().find(|e| !l.permits(e))
	}
}

#[derive(Clone, Copy, PartialEq, Eq, Debug)]
enum St {
	/// Before the top-level value.
	Top,
	/// After `[`.
	ArrFirst,
	/// After `,` in an array.
	ArrNext,
	/// After `{`.
	ObjFirst,
	/// After `,` in an object.
	ObjNextKey,
	/// After a key.
	AfterKey,
	/// After `:`.
	ObjValue,
	/// After a complete value (in a container or at top level).
	AfterValue,
	/// In a literal; the remaining characters are `LITS[lit][k..]`.
	Lit(u8, u8),
	NumMinus,
	NumZero,
	NumInt,
	NumDot,
	NumFrac,
	NumE,
	NumESign,
	NumExp,
	Str,
	StrEsc,
	/// `k` hex digits of a `\u` escape read so far.
	StrU(u8),
}

const LITS: [&[char]; 3] = [
	&['n', 'u', 'l', 'l'],
	&['t', 'r', 'u', 'e'],
	&['f', 'a', 'l', 's', 'e'],
];

#[inline]
fn is_ws(c: char) -> bool {
	c == ' ' || c == '\t' || c == '\n' || c == '\r'
}

#[inline]
fn hex_val(c: char) -> Option<u32> {
	match c {
		'0'..='9' => Some(c as u32 - '0' as u32),
		'a'..='f' => Some(c as u32 - 'a' as u32 + 10),
		'A'..='F' => Some(c as u32 - 'A' as u32 + 10),
		_ => None,
	}
}

enum Open {
	Arr {
		frag: usize,
		items: Vec<RefValue>,
	},
	Obj {
		frag: usize,
		entries: Vec<(String, RefValue)>,
		key: Option<String>,
		entry_frag: usize,
	},
}

struct Builder {
	frags: Vec<Frag>,
	open: Vec<Open>,
	root: Option<RefValue>,
}

impl Builder {
	fn attach(&mut self, v: RefValue, end: usize) {
		match self.open.last_mut() {
			None => self.root = Some(v),
			Some(Open::Arr { items, .. }) => items.push(v),
			Some(Open::Obj {
				entries,
				key,
				entry_frag,
				..
			}) => {
				let k = key.take().expect("value without key");
				entries.push((k, v));
				let n = self.frags.len();
				let f = &mut self.frags[*entry_frag];
				f.end = end;
				f.volume = n - *entry_frag;
			}
		}
	}

	fn scalar(&mut self, v: RefValue, start: usize, end: usize) {
		self.frags.push(Frag {
			kind: FragKind::Value,
			start,
			end,
			volume: 1,
		});
		self.attach(v, end);
	}

	fn key(&mut self, k: String, start: usize, end: usize) {
		let e = self.frags.len();
		self.frags.push(Frag {
			kind: FragKind::Entry,
			start,
			end: 0,
			volume: 0,
		});
		self.frags.push(Frag {
			kind: FragKind::Key,
			start,
			end,
			volume: 1,
		});
		match self.open.last_mut() {
			Some(Open::Obj { key, entry_frag, .. }) => {
				*key = Some(k);
				*entry_frag = e;
			}
			_ => unreachable!("key outside object"),
		}
	}

	fn open_arr(&mut self, start: usize) {
		let frag = self.frags.len();
		self.frags.push(Frag {
			kind: FragKind::Value,
			start,
			end: 0,
			volume: 0,
		});
		self.open.push(Open::Arr {
			frag,
			items: Vec::new(),
		});
	}

	fn open_obj(&mut self, start: usize) {
		let frag = self.frags.len();
		self.frags.push(Frag {
			kind: FragKind::Value,
			start,
			end: 0,
			volume: 0,
		});
		self.open.push(Open::Obj {
			frag,
			entries: Vec::new(),
			key: None,
			entry_frag: 0,
		});
	}

	fn close(&mut self, end: usize) {
		let (frag, v) = match self.open.pop().expect("close without open") {
			Open::Arr { frag, items } => (frag, RefValue::Arr(items)),
			Open::Obj { frag, entries, .. } => (frag, RefValue::Obj(entries)),
		};
		let n = self.frags.len();
		self.frags[frag].end = end;
		self.frags[frag].volume = n - frag;
		self.attach(v, end);
	}
}

/// Runs the automaton over `chars`. With `build`, also constructs the value
/// tree and the pre-order fragment table.
pub fn ref_parse(chars: &[char], build: bool) -> RefParse {
	let mut st = St::Top;
	// container stack: true = object
	let mut stack: Vec<bool> = Vec::new();
	let mut max_depth = 0usize;
	let mut events: Vec<SurEvent> = Vec::new();
	let mut b = if build {
		Some(Builder {
			frags: Vec::new(),
			open: Vec::new(),
			root: None,
		})
	} else {
		None
	};

	// lexical scratch
	let mut tok_start = 0usize; // start of the current scalar / string
	let mut str_is_key = false;
	let mut cur = String::new(); // decoded string
	let mut pending_high: Option<(u16, usize, usize)> = None; // unit, esc_start, esc_end
	let mut esc_start = 0usize;
	let mut hex_acc: u32 = 0;

	macro_rules! fail {
		($i:expr, $c:expr) => {
			return RefParse {
				syntax_err: Some(($i, $c)),
				events,
				doc: None,
				max_depth,
				completion: None,
			}
		};
	}

	// A complete string element arrived: `unit` is Some for \u escapes.
	// `start..end` are its character indices.
	macro_rules! element {
		($c:expr, $unit:expr, $start:expr, $end:expr) => {{
			let unit: Option<u32> = $unit;
			let mut consumed = false;
			if let Some((h, hs, he)) = pending_high.take() {
				match unit {
					Some(u) if (0xDC00..=0xDFFF).contains(&u) => {
						let cp = 0x10000 + (((h as u32) - 0xD800) << 10) + (u - 0xDC00);
						cur.push(char::from_u32(cp).unwrap());
						consumed = true;
					}
					_ => {
						events.push(SurEvent {
							kind: SurKind::UnpairedHigh,
							unit: h,
							esc_start: hs,
							esc_end: he,
							follow_end: $end,
							next_unit: unit,
						});
						cur.push('\u{FFFD}');
					}
				}
			}
			if !consumed {
				match unit {
					Some(u) if (0xD800..=0xDBFF).contains(&u) => {
						pending_high = Some((u as u16, $start, $end));
					}
					Some(u) if (0xDC00..=0xDFFF).contains(&u) => {
						events.push(SurEvent {
							kind: SurKind::LoneLow,
							unit: u as u16,
							esc_start: $start,
							esc_end: $end,
							follow_end: $end,
							next_unit: None,
						});
						cur.push('\u{FFFD}');
					}
					Some(u) => cur.push(char::from_u32(u).unwrap()),
					None => cur.push($c),
				}
			}
		}};
	}

	let n = chars.len();
	let mut i = 0usize;
	while i < n {
		let c = chars[i];
		// States that may need to re-dispatch the same character loop here.
		loop {
			match st {
				St::Top | St::ArrFirst | St::ArrNext | St::ObjValue => {
					if is_ws(c) {
						break;
					}
					if st == St::ArrFirst && c == ']' {
						stack.pop();
						if let Some(b) = b.as_mut() {
							b.close(i + 1)
						}
						st = St::AfterValue;
						break;
					}
					tok_start = i;
					match c {
						'n' => st = St::Lit(0, 1),
						't' => st = St::Lit(1, 1),
						'f' => st = St::Lit(2, 1),
						'-' => st = St::NumMinus,
						'0' => st = St::NumZero,
						'1'..='9' => st = St::NumInt,
						'"' => {
							st = St::Str;
							str_is_key = false;
							cur.clear();
							pending_high = None;
						}
						'[' => {
							stack.push(false);
							max_depth = max_depth.max(stack.len());
							if let Some(b) = b.as_mut() {
								b.open_arr(i)
							}
							st = St::ArrFirst;
						}
						'{' => {
							stack.push(true);
							max_depth = max_depth.max(stack.len());
							if let Some(b) = b.as_mut() {
								b.open_obj(i)
							}
							st = St::ObjFirst;
						}
						_ => fail!(i, Some(c)),
					}
					break;
				}
				St::ObjFirst | St::ObjNextKey => {
					if is_ws(c) {
						break;
					}
					if st == St::ObjFirst && c == '}' {
						stack.pop();
						if let Some(b) = b.as_mut() {
							b.close(i + 1)
						}
						st = St::AfterValue;
						break;
					}
					if c == '"' {
						tok_start = i;
						st = St::Str;
						str_is_key = true;
						cur.clear();
						pending_high = None;
						break;
					}
					fail!(i, Some(c));
				}
				St::AfterKey => {
					if is_ws(c) {
						break;
					}
					if c == ':' {
						st = St::ObjValue;
						break;
					}
					fail!(i, Some(c));
				}
				St::AfterValue => {
					if is_ws(c) {
						break;
					}
					match stack.last() {
						None => fail!(i, Some(c)),
						Some(false) => match c {
							',' => st = St::ArrNext,
							']' => {
								stack.pop();
								if let Some(b) = b.as_mut() {
									b.close(i + 1)
								}
							}
							_ => fail!(i, Some(c)),
						},
						Some(true) => match c {
							',' => st = St::ObjNextKey,
							'}' => {
								stack.pop();
								if let Some(b) = b.as_mut() {
									b.close(i + 1)
								}
							}
							_ => fail!(i, Some(c)),
						},
					}
					break;
				}
				St::Lit(l, k) => {
					let lit = LITS[l as usize];
					if c != lit[k as usize] {
						fail!(i, Some(c));
					}
					if k as usize + 1 == lit.len() {
						if let Some(b) = b.as_mut() {
							let v = match l {
								0 => RefValue::Null,
								1 => RefValue::Bool(true),
								_ => RefValue::Bool(false),
							};
							b.scalar(v, tok_start, i + 1);
						}
						st = St::AfterValue;
					} else {
						st = St::Lit(l, k + 1);
					}
					break;
				}
				St::NumMinus => {
					match c {
						'0' => st = St::NumZero,
						'1'..='9' => st = St::NumInt,
						_ => fail!(i, Some(c)),
					}
					break;
				}
				St::NumZero | St::NumInt | St::NumFrac | St::NumExp => {
					let cont = match (st, c) {
						(St::NumInt, '0'..='9') => Some(St::NumInt),
						(St::NumZero | St::NumInt, '.') => Some(St::NumDot),
						(St::NumZero | St::NumInt | St::NumFrac, 'e' | 'E') => Some(St::NumE),
						(St::NumFrac, '0'..='9') => Some(St::NumFrac),
						(St::NumExp, '0'..='9') => Some(St::NumExp),
						_ => None,
					};
					match cont {
						Some(s) => {
							st = s;
							break;
						}
						None => {
							// the number ends before this character
							if let Some(b) = b.as_mut() {
								let s: String = chars[tok_start..i].iter().collect();
								b.scalar(RefValue::Num(s), tok_start, i);
							}
							st = St::AfterValue;
							continue; // re-dispatch c
						}
					}
				}
				St::NumDot => {
					match c {
						'0'..='9' => st = St::NumFrac,
						_ => fail!(i, Some(c)),
					}
					break;
				}
				St::NumE => {
					match c {
						'+' | '-' => st = St::NumESign,
						'0'..='9' => st = St::NumExp,
						_ => fail!(i, Some(c)),
					}
					break;
				}
				St::NumESign => {
					match c {
						'0'..='9' => st = St::NumExp,
						_ => fail!(i, Some(c)),
					}
					break;
				}
				St::Str => {
					match c {
						'"' => {
							if let Some((h, hs, he)) = pending_high.take() {
								events.push(SurEvent {
									kind: SurKind::UnpairedHigh,
									unit: h,
									esc_start: hs,
									esc_end: he,
									follow_end: he,
									next_unit: None,
								});
								cur.push('\u{FFFD}');
							}
							if str_is_key {
								if let Some(b) = b.as_mut() {
									b.key(cur.clone(), tok_start, i + 1);
								}
								st = St::AfterKey;
							} else {
								if let Some(b) = b.as_mut() {
									b.scalar(RefValue::Str(cur.clone()), tok_start, i + 1);
								}
								st = St::AfterValue;
							}
						}
						'\\' => {
							esc_start = i;
							st = St::StrEsc;
						}
						c if (c as u32) < 0x20 => fail!(i, Some(c)),
						c => element!(c, None, i, i + 1),
					}
					break;
				}
				St::StrEsc => {
					let d = match c {
						'"' => Some('"'),
						'\\' => Some('\\'),
						'/' => Some('/'),
						'b' => Some('\u{8}'),
						'f' => Some('\u{c}'),
						'n' => Some('\n'),
						'r' => Some('\r'),
						't' => Some('\t'),
						'u' => None,
						_ => fail!(i, Some(c)),
					};
					match d {
						Some(d) => {
							element!(d, None, esc_start, i + 1);
							st = St::Str;
						}
						None => {
							hex_acc = 0;
							st = St::StrU(0);
						}
					}
					break;
				}
				St::StrU(k) => {
					match hex_val(c) {
						Some(h) => {
							hex_acc = hex_acc * 16 + h;
							if k == 3 {
								element!('\0', Some(hex_acc), esc_start, i + 1);
								st = St::Str;
							} else {
								st = St::StrU(k + 1);
							}
						}
						None => fail!(i, Some(c)),
					}
					break;
				}
			}
		}
		i += 1;
	}

	// end of input
	match st {
		St::NumZero | St::NumInt | St::NumFrac | St::NumExp => {
			if let Some(b) = b.as_mut() {
				let s: String = chars[tok_start..n].iter().collect();
				b.scalar(RefValue::Num(s), tok_start, n);
			}
			st = St::AfterValue;
		}
		_ => {}
	}
	if st == St::AfterValue && stack.is_empty() {
		let doc = b.map(|b| RefDoc {
			value: b.root.expect("root value"),
			frags: b.frags,
		});
		RefParse {
			syntax_err: None,
			events,
			doc,
			max_depth,
			completion: Some(String::new()),
		}
	} else {
		// shortest completion of the viable prefix
		let mut c = String::new();
		match st {
			St::Lit(l, k) => c.extend(LITS[l as usize][k as usize..].iter()),
			St::NumMinus | St::NumDot | St::NumE | St::NumESign => c.push('0'),
			St::Str | St::StrEsc | St::StrU(_) => {
				match st {
					St::StrEsc => c.push('n'),
					St::StrU(k) => {
						for _ in k..4 {
							c.push('0')
						}
					}
					_ => {}
				}
				c.push('"');
				if str_is_key {
					c.push_str(":0");
				}
			}
			St::Top | St::ArrNext | St::ObjValue => c.push('0'),
			St::ArrFirst => {
				c.push(']');
				stack.pop();
			}
			St::ObjFirst => {
				c.push('}');
				stack.pop();
			}
			St::ObjNextKey => c.push_str("\"\":0"),
			St::AfterKey => c.push_str(":0"),
			St::AfterValue => {}
			St::NumZero | St::NumInt | St::NumFrac | St::NumExp => unreachable!(),
		}
		while let Some(is_obj) = stack.pop() {
			c.push(if is_obj { '}' } else { ']' });
		}
		RefParse {
			syntax_err: Some((n, None)),
			events,
			doc: None,
			max_depth,
			completion: Some(c),
		}
	}
}

pub fn ref_parse_str(s: &str, build: bool) -> (Vec<char>, RefParse) {
	let chars: Vec<char> = s.chars().collect();
	let r = ref_parse(&chars, build);
	(chars, r)
}

/// Prefix table of UTF-8 byte offsets: `t[i]` = byte offset of character `i`.
pub fn utf8_offsets(chars: &[char]) -> Vec<usize> {
	let mut t = Vec::with_capacity(chars.len() + 1);
	let mut p = 0;
	for c in chars {
		t.push(p);
		p += c.len_utf8();
	}
	t.push(p);
	t
}

/// Removes insignificant whitespace (outside strings) from a text that the
/// automaton accepts; returns None if it does not.
pub fn strip_insignificant_ws(text: &str) -> Option<String> {
	let chars: Vec<char> = text.chars().collect();
	let r = ref_parse(&chars, true);
	let doc = r.doc?;
	// characters inside a string fragment (value strings and keys) are significant
	let mut in_string = vec![false; chars.len()];
	for f in &doc.frags {
		if chars[f.start] == '"' && f.kind != FragKind::Entry {
			for x in in_string.iter_mut().take(f.end).skip(f.start) {
				*x = true;
			}
		}
	}
	Some(
		chars
			.iter()
			.enumerate()
			.filter(|(i, c)| in_string[*i] || !is_ws(**c))
			.map(|(_, c)| *c)
			.collect(),
	)
}

#[cfg(test)]
mod tests {
	use super::*;

	fn ok(s: &str) -> RefDoc {
		let (_, r) = ref_parse_str(s, true);
		assert!(r.syntax_err.is_none(), "{s}: {:?}", r.syntax_err);
		r.doc.unwrap()
	}

	fn err(s: &str) -> (usize, Option<char>) {
		let (_, r) = ref_parse_str(s, true);
		r.syntax_err.expect(s)
	}

	#[test]
	fn basics() {
		assert_eq!(ok("null").value, RefValue::Null);
		assert_eq!(ok(" [1 , 2.5e+3] ").value, RefValue::Arr(vec![RefValue::num("1"), RefValue::num("2.5e+3")]));
		assert_eq!(err(""), (0, None));
		assert_eq!(err("[1,]"), (3, Some(']')));
		assert_eq!(err("01"), (1, Some('1')));
		assert_eq!(err("1."), (2, None));
		assert_eq!(err("[1 2"), (3, Some('2')));
		assert_eq!(err("{\"a\" 1}"), (5, Some('1')));
		assert_eq!(err("nul"), (3, None));
		assert_eq!(err("\"\\x\""), (2, Some('x')));
		assert_eq!(err("\"\u{1f}\""), (1, Some('\u{1f}')));
		assert_eq!(ok("\"\u{7f}\"").value, RefValue::str("\u{7f}"));
		assert_eq!(err("1 1"), (2, Some('1')));
		assert_eq!(err("\u{feff}1"), (0, Some('\u{feff}')));
	}

	#[test]
	fn frags() {
		// same document as json-syntax's own code_map_t1
		let d = ok(r#"{ "a": 0, "b": [1, 2] }"#);
		let got: Vec<(usize, usize, usize)> = d.frags.iter().map(|f| (f.start, f.end, f.volume)).collect();
		assert_eq!(
			got,
			vec![(0, 23, 9), (2, 8, 3), (2, 5, 1), (7, 8, 1), (10, 21, 5), (10, 13, 1), (15, 21, 3), (16, 17, 1), (19, 20, 1)]
		);
		let d = ok("[ {} , { } , [ ] ,1]");
		let got: Vec<(usize, usize, usize)> = d.frags.iter().map(|f| (f.start, f.end, f.volume)).collect();
		assert_eq!(got, vec![(0, 20, 5), (2, 4, 1), (7, 10, 1), (13, 16, 1), (18, 19, 1)]);
	}

	#[test]
	fn surrogates() {
		let hi = "\\uD800";
		let lo = "\\uDC00";
		let (_, r) = ref_parse_str(&format!("\"{hi}{lo}\""), true);
		assert!(r.events.is_empty());
		assert_eq!(r.doc.unwrap().value, RefValue::str("\u{10000}"));
		let (_, r) = ref_parse_str(&format!("\"{hi}{hi}{lo}\""), true);
		assert_eq!(r.events.len(), 1);
		assert_eq!(r.events[0].kind, SurKind::UnpairedHigh);
		assert_eq!((r.events[0].esc_start, r.events[0].esc_end, r.events[0].follow_end), (1, 7, 13));
		assert_eq!(r.doc.unwrap().value, RefValue::str("\u{fffd}\u{10000}"));
		let (_, r) = ref_parse_str(&format!("\"{lo}a{hi}\""), true);
		assert_eq!(r.events.len(), 2);
		assert_eq!(r.events[0].kind, SurKind::LoneLow);
		assert_eq!(r.events[1].kind, SurKind::UnpairedHigh);
		assert_eq!(r.events[1].follow_end, r.events[1].esc_end);
		assert_eq!(r.doc.unwrap().value, RefValue::str("\u{fffd}a\u{fffd}"));
		let (_, r) = ref_parse_str(&format!("\"{hi}a\""), true);
		assert_eq!((r.events[0].esc_start, r.events[0].esc_end, r.events[0].follow_end), (1, 7, 8));
	}

	#[test]
	fn strip() {
		assert_eq!(strip_insignificant_ws(" { \"a b\" : [ 1 , \" \" ] } ").unwrap(), "{\"a b\":[1,\" \"]}");
	}
}

#[cfg(test)]
mod completion_tests {
	use super::*;
	#[test]
	fn completions() {
		for p in ["", "[", "[1,", "{", "{\"a", "{\"a\"", "{\"a\":", "{\"a\":1,", "tr", "-", "1.", "1e", "1e+", "\"\\", "\"\\u00", "[[{\"k\":[\"\\uD8", "1", "[1"] {
			let (_, r) = ref_parse_str(p, false);
			let c = r.completion.clone().unwrap_or_else(|| panic!("no completion for {p:?}"));
			let full = format!("{p}{c}");
			let (_, r2) = ref_parse_str(&full, false);
			assert!(r2.syntax_err.is_none(), "{p:?} + {c:?}");
		}
	}
}
