//! Thread-local size-class allocator for the harness binary.
//!
//! In this sandbox glibc serves every thread from `main_arena`, so the
//! millions of tiny allocations per second made by 16 worker threads (parser
//! buffers, code maps, reference trees) serialise on one futex (measured: 85 %
//! of the CPU time in the kernel). Small blocks are therefore served from
//! per-thread free lists carved out of 256 KiB slabs; large blocks go to the
//! system allocator. Memory of small blocks is never returned to the system.
use std::alloc::{GlobalAlloc, Layout, System};
use std::cell::UnsafeCell;

const MAX_SMALL: usize = 2048;
const NCLASSES: usize = 20;
const CLASS_SIZES: [usize; NCLASSES] = [
	16, 32, 48, 64, 80, 96, 112, 128, 160, 192, 224, 256, 320, 384, 512, 640, 768, 1024, 1536, 2048,
];
const SLAB: usize = 256 * 1024;

const fn build_table() -> [u8; MAX_SMALL / 16 + 1] {
	let mut t = [0u8; MAX_SMALL / 16 + 1];
	let mut i = 0;
	while i <= MAX_SMALL / 16 {
		let size = i * 16;
		let mut c = 0;
		while CLASS_SIZES[c] < size {
			c += 1;
		}
		t[i] = c as u8;
		i += 1;
	}
	t
}

static TABLE: [u8; MAX_SMALL / 16 + 1] = build_table();

struct Lists(UnsafeCell<[*mut u8; NCLASSES]>);

thread_local! {
	static FREE: Lists = const { Lists(UnsafeCell::new([std::ptr::null_mut(); NCLASSES])) };
}

pub struct TlAlloc;

#[inline]
fn class_of(layout: &Layout) -> Option<usize> {
	if layout.size() <= MAX_SMALL && layout.align() <= 16 {
		Some(TABLE[(layout.size() + 15) / 16] as usize)
	} else {
		None
	}
}

unsafe impl GlobalAlloc for TlAlloc {
	#[inline]
	unsafe fn alloc(&self, layout: Layout) -> *mut u8 {
		match class_of(&layout) {
			Some(c) => FREE.with(|f| {
				let lists = &mut *f.0.get();
				let head = lists[c];
				if !head.is_null() {
					lists[c] = *(head as *mut *mut u8);
					head
				} else {
					let size = CLASS_SIZES[c];
					let slab = System.alloc(Layout::from_size_align_unchecked(SLAB, 16));
					if slab.is_null() {
						return slab;
					}
					let n = SLAB / size;
					// chain blocks 1..n, return block 0
					let mut next: *mut u8 = std::ptr::null_mut();
					let mut i = n - 1;
					while i >= 1 {
						let b = slab.add(i * size);
						*(b as *mut *mut u8) = next;
						next = b;
						i -= 1;
					}
					lists[c] = next;
					slab
				}
			}),
			None => System.alloc(layout),
		}
	}

	#[inline]
	unsafe fn dealloc(&self, ptr: *mut u8, layout: Layout) {
		match class_of(&layout) {
			Some(c) => FREE.with(|f| {
				let lists = &mut *f.0.get();
				*(ptr as *mut *mut u8) = lists[c];
				lists[c] = ptr;
			}),
			None => System.dealloc(ptr, layout),
		}
	}

	#[inline]
	unsafe fn realloc(&self, ptr: *mut u8, layout: Layout, new_size: usize) -> *mut u8 {
		let new_layout = Layout::from_size_align_unchecked(new_size, layout.align());
		match (class_of(&layout), class_of(&new_layout)) {
			(None, None) => System.realloc(ptr, layout, new_size),
			(Some(a), Some(b)) if a == b => ptr,
			_ => {
				let new = self.alloc(new_layout);
				if !new.is_null() {
					std::ptr::copy_nonoverlapping(ptr, new, layout.size().min(new_size));
					self.dealloc(ptr, layout);
				}
				new
			}
		}
	}
}
