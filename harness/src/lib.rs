pub mod entry;
pub mod framework;
pub mod gen;
pub mod parsefam;
pub mod props;
pub mod refjson;
pub mod refvalue;
pub mod tlalloc;
