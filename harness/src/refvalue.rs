//! Reference value tree, independent of json-syntax's `Value`.
use json_syntax::{object::Entry, NumberBuf, Object, Value};
use serde_json::{json, Value as J};

#[derive(Clone, Debug, PartialEq, Eq, Hash, PartialOrd, Ord)]
pub enum RefValue {
	Null,
	Bool(bool),
	/// Source spelling of the number.
	Num(String),
	Str(String),
	Arr(Vec<RefValue>),
	Obj(Vec<(String, RefValue)>),
}

impl RefValue {
	pub fn num(s: &str) -> Self {
		RefValue::Num(s.to_string())
	}
	pub fn str(s: &str) -> Self {
		RefValue::Str(s.to_string())
	}

	pub fn is_container(&self) -> bool {
		matches!(self, RefValue::Arr(_) | RefValue::Obj(_))
	}

	pub fn depth(&self) -> usize {
		match self {
			RefValue::Arr(a) => 1 + a.iter().map(|v| v.depth()).max().unwrap_or(0),
			RefValue::Obj(o) => 1 + o.iter().map(|(_, v)| v.depth()).max().unwrap_or(0),
			_ => 0,
		}
	}

	/// Number of fragments (values + entries + keys).
	pub fn fragments(&self) -> usize {
		match self {
			RefValue::Arr(a) => 1 + a.iter().map(|v| v.fragments()).sum::<usize>(),
			RefValue::Obj(o) => 1 + o.iter().map(|(_, v)| 2 + v.fragments()).sum::<usize>(),
			_ => 1,
		}
	}

	pub fn nodes(&self) -> usize {
		match self {
			RefValue::Arr(a) => 1 + a.iter().map(|v| v.nodes()).sum::<usize>(),
			RefValue::Obj(o) => 1 + o.iter().map(|(_, v)| v.nodes()).sum::<usize>(),
			_ => 1,
		}
	}

	pub fn walk<'a>(&'a self, f: &mut dyn FnMut(&'a RefValue)) {
		f(self);
		match self {
			RefValue::Arr(a) => a.iter().for_each(|v| v.walk(f)),
			RefValue::Obj(o) => o.iter().for_each(|(_, v)| v.walk(f)),
			_ => {}
		}
	}

	pub fn any(&self, p: &dyn Fn(&RefValue) -> bool) -> bool {
		let mut found = false;
		self.walk(&mut |v| {
			if p(v) {
				found = true
			}
		});
		found
	}

	pub fn has_duplicate_keys(&self) -> bool {
		self.any(&|v| match v {
			RefValue::Obj(o) => {
				let mut keys: Vec<&str> = o.iter().map(|(k, _)| k.as_str()).collect();
				keys.sort();
				keys.windows(2).any(|w| w[0] == w[1])
			}
			_ => false,
		})
	}

	pub fn all_strings<'a>(&'a self, out: &mut Vec<&'a str>) {
		match self {
			RefValue::Str(s) => out.push(s),
			RefValue::Arr(a) => a.iter().for_each(|v| v.all_strings(out)),
			RefValue::Obj(o) => o.iter().for_each(|(k, v)| {
				out.push(k);
				v.all_strings(out)
			}),
			_ => {}
		}
	}

	pub fn all_numbers<'a>(&'a self, out: &mut Vec<&'a str>) {
		match self {
			RefValue::Num(s) => out.push(s),
			RefValue::Arr(a) => a.iter().for_each(|v| v.all_numbers(out)),
			RefValue::Obj(o) => o.iter().for_each(|(_, v)| v.all_numbers(out)),
			_ => {}
		}
	}

	/// Builds the json-syntax value through public constructors only.
	pub fn to_value(&self) -> Value {
		match self {
			RefValue::Null => Value::Null,
			RefValue::Bool(b) => Value::Boolean(*b),
			RefValue::Num(n) => Value::Number(
				NumberBuf::new(n.as_bytes().to_vec().into())
					.unwrap_or_else(|_| panic!("harness generated an invalid number {n:?}")),
			),
			RefValue::Str(s) => Value::String(s.as_str().into()),
			RefValue::Arr(a) => Value::Array(a.iter().map(|v| v.to_value()).collect()),
			RefValue::Obj(o) => Value::Object(Object::from_vec(
				o.iter()
					.map(|(k, v)| Entry::new(k.as_str().into(), v.to_value()))
					.collect(),
			)),
		}
	}

	/// Same value, objects built with `push` instead of `from_vec`.
	pub fn to_value_push(&self) -> Value {
		match self {
			RefValue::Arr(a) => Value::Array(a.iter().map(|v| v.to_value_push()).collect()),
			RefValue::Obj(o) => {
				let mut obj = Object::new();
				for (k, v) in o {
					obj.push(k.as_str().into(), v.to_value_push());
				}
				Value::Object(obj)
			}
			other => other.to_value(),
		}
	}

	/// Builds the value through construction route `route`:
	/// 0 `Object::from_vec`, 1 `push`, 2 parsing the compact text, 3 clone of a pushed value,
	/// 4 `From` conversions + `FromIterator<(Key, Value)>`, 5 `Extend<Entry>` in two halves + `push_front` for the first entry,
	/// 6 parsing a rendering with arbitrary escapes and whitespace, 7 `to_value` (Serialize for Value), 8 `from_value::<Value>`
	/// (7, 8 only when `bridge_exact`, else routes 1, 2).
	pub fn to_value_route(&self, route: u8) -> Value {
		use json_syntax::Parse;
		match route % 9 {
			// 7, 8: through the serde bridges, only for values on which those bridges are exact copies
			// (duplicate-free objects, plain integers within 64 bits, no in-band number token)
			7 | 8 if self.bridge_exact() => {
				let base = self.to_value_push();
				let out = match route % 9 {
					7 => json_syntax::to_value(&base).ok(),
					_ => json_syntax::from_value::<Value>(base.clone()).ok(),
				};
				out.unwrap_or(base)
			}
			7 | 8 => self.to_value_route(route % 9 - 6),
			6 => {
				// parsing a rendering with arbitrary escapes and whitespace (choices derived from the value)
				let seed = crate::framework::hash64(&crate::refprint::compact(self));
				let mut x = crate::framework::Mix(seed);
				let choices: Vec<u8> = (0..256).map(|_| x.next() as u8).collect();
				let text = crate::gen::render_doc(self, &choices, crate::gen::RenderCfg::FREE);
				Value::parse_str(&text).map(|x| x.0).unwrap_or_else(|_| self.to_value())
			}
			0 => self.to_value(),
			1 => self.to_value_push(),
			2 => {
				let text = crate::refprint::compact(self);
				Value::parse_str(&text).map(|x| x.0).unwrap_or_else(|_| self.to_value())
			}
			3 => self.to_value_push().clone(),
			4 => match self {
				RefValue::Null => Value::Null,
				RefValue::Bool(b) => Value::from(*b),
				RefValue::Num(n) => match n.parse::<u64>() {
					Ok(u) if u.to_string() == *n => Value::from(u),
					_ => match n.parse::<i64>() {
						Ok(i) if i.to_string() == *n => Value::from(i),
						_ => self.to_value(),
					},
				},
				RefValue::Str(s) => {
					if s.len() % 2 == 0 {
						Value::from(s.as_str())
					} else {
						Value::from(s.clone())
					}
				}
				RefValue::Arr(a) => Value::from(a.iter().map(|v| v.to_value_route(4)).collect::<Vec<Value>>()),
				RefValue::Obj(o) => Value::from(o.iter().map(|(k, v)| (json_syntax::object::Key::from(k.as_str()), v.to_value_route(4))).collect::<Object>()),
			},
			_ => match self {
				RefValue::Arr(a) => Value::Array(a.iter().map(|v| v.to_value_route(5)).collect()),
				RefValue::Obj(o) => {
					let mut obj = Object::new();
					let es: Vec<Entry> = o.iter().map(|(k, v)| Entry::new(k.as_str().into(), v.to_value_route(5))).collect();
					if let Some((first, rest)) = es.split_first() {
						let half = rest.len() / 2;
						obj.extend(rest[..half].iter().cloned());
						obj.extend(rest[half..].iter().cloned());
						obj.push_entry_front(first.clone());
					}
					Value::Object(obj)
				}
				other => other.to_value(),
			},
		}
	}

	/// True when the serde bridges (Serialize / Deserialize for Value) are specified to copy
	/// this value exactly: no duplicate keys, every number a plain integer that fits i64/u64 (and not `-0`), and the
	/// private number token of serde_json never used as a key.
	pub fn bridge_exact(&self) -> bool {
		if self.has_duplicate_keys() {
			return false;
		}
		let mut nums = vec![];
		self.all_numbers(&mut nums);
		let ints = nums.iter().all(|n| *n != "-0" && (n.parse::<i64>().map(|i| i.to_string() == **n).unwrap_or(false) || n.parse::<u64>().map(|u| u.to_string() == **n).unwrap_or(false)));
		let mut keys = vec![];
		self.walk(&mut |v| {
			if let RefValue::Obj(o) = v {
				keys.extend(o.iter().map(|(k, _)| k.as_str()))
			}
		});
		ints && !keys.iter().any(|k| k.starts_with("$serde_json::private"))
	}

	/// Reads a json-syntax value back through its public accessors.
	pub fn from_value(v: &Value) -> RefValue {
		match v {
			Value::Null => RefValue::Null,
			Value::Boolean(b) => RefValue::Bool(*b),
			Value::Number(n) => RefValue::Num(n.as_str().to_string()),
			Value::String(s) => RefValue::Str(s.as_str().to_string()),
			Value::Array(a) => RefValue::Arr(a.iter().map(RefValue::from_value).collect()),
			Value::Object(o) => RefValue::Obj(
				o.iter()
					.map(|e| (e.key.as_str().to_string(), RefValue::from_value(&e.value)))
					.collect(),
			),
		}
	}

	/// Replay encoding (strings as code point arrays so that any scalar survives).
	pub fn encode(&self) -> J {
		match self {
			RefValue::Null => J::Null,
			RefValue::Bool(b) => J::Bool(*b),
			RefValue::Num(n) => json!({ "num": n }),
			RefValue::Str(s) => json!({ "str": enc_str(s) }),
			RefValue::Arr(a) => J::Array(a.iter().map(|v| v.encode()).collect()),
			RefValue::Obj(o) => {
				json!({"obj": o.iter().map(|(k, v)| json!([enc_str(k), v.encode()])).collect::<Vec<_>>()})
			}
		}
	}

	pub fn decode(j: &J) -> RefValue {
		match j {
			J::Null => RefValue::Null,
			J::Bool(b) => RefValue::Bool(*b),
			J::Array(a) => RefValue::Arr(a.iter().map(RefValue::decode).collect()),
			J::Object(m) => {
				if let Some(n) = m.get("num") {
					RefValue::Num(n.as_str().unwrap().to_string())
				} else if let Some(s) = m.get("str") {
					RefValue::Str(dec_str(s))
				} else if let Some(o) = m.get("obj") {
					RefValue::Obj(
						o.as_array()
							.unwrap()
							.iter()
							.map(|e| (dec_str(&e[0]), RefValue::decode(&e[1])))
							.collect(),
					)
				} else {
					panic!("bad RefValue encoding: {j}")
				}
			}
			_ => panic!("bad RefValue encoding: {j}"),
		}
	}
}

pub fn enc_str(s: &str) -> J {
	// plain printable ASCII strings are kept readable
	if s.chars().all(|c| (' '..='~').contains(&c)) {
		J::String(s.to_string())
	} else {
		J::Array(s.chars().map(|c| json!(c as u32)).collect())
	}
}

pub fn dec_str(j: &J) -> String {
	match j {
		J::String(s) => s.clone(),
		J::Array(a) => a
			.iter()
			.map(|c| char::from_u32(c.as_u64().unwrap() as u32).unwrap())
			.collect(),
		_ => panic!("bad string encoding {j}"),
	}
}
