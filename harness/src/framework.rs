//! Check framework: families, evidence, failures, known findings, replay files,
//! panic capture, seeded proptest runners.
use proptest::strategy::{Strategy, ValueTree};
use proptest::test_runner::{Config, RngAlgorithm, TestCaseError, TestError, TestRng, TestRunner};
use serde_json::{json, Value as J};
use std::cell::{Cell, RefCell};
use std::collections::{BTreeMap, HashSet};
use std::hash::{Hash, Hasher};
use std::panic::{catch_unwind, AssertUnwindSafe};
use std::path::{Path, PathBuf};
use std::time::Instant;

#[derive(Clone, Copy, PartialEq, Eq, Debug)]
pub enum Tier {
	Quick,
	Thorough,
}

impl Tier {
	pub fn name(self) -> &'static str {
		match self {
			Tier::Quick => "quick",
			Tier::Thorough => "thorough",
		}
	}
}

pub fn verif_dir() -> PathBuf {
	std::env::var_os("JSV_VERIF_DIR")
		.map(PathBuf::from)
		.unwrap_or_else(|| PathBuf::from("/verif"))
}

// ---------------------------------------------------------------------------
// panic capture

thread_local! {
	static LAST_PANIC: RefCell<Option<String>> = const { RefCell::new(None) };
	static QUIET: Cell<bool> = const { Cell::new(false) };
	/// Describes the case being evaluated (used by the panic hook to leave a
	/// record in case the process aborts while unwinding).
	static INFLIGHT: Cell<Option<(*const (), fn(*const ()) -> J)>> = const { Cell::new(None) };
	static INFLIGHT_FILE: RefCell<Option<PathBuf>> = const { RefCell::new(None) };
}

static INFLIGHT_COUNT: std::sync::atomic::AtomicUsize = std::sync::atomic::AtomicUsize::new(0);
static CURRENT: std::sync::Mutex<(String, String)> = std::sync::Mutex::new((String::new(), String::new()));

pub fn set_current(prop: &str, family: &str) {
	if let Ok(mut c) = CURRENT.lock() {
		*c = (prop.to_string(), family.to_string());
	}
}

fn inflight_prefix(pid: u32) -> String {
	format!(".inflight-{pid}-")
}

/// Installs a panic hook that records the message and location in a
/// thread-local instead of printing it (while inside `guarded`).
pub fn install_panic_hook() {
	let default = std::panic::take_hook();
	std::panic::set_hook(Box::new(move |info| {
		let msg = if let Some(s) = info.payload().downcast_ref::<&str>() {
			s.to_string()
		} else if let Some(s) = info.payload().downcast_ref::<String>() {
			s.clone()
		} else {
			"<non-string panic payload>".to_string()
		};
		let loc = info
			.location()
			.map(|l| format!("{}:{}", l.file(), l.line()))
			.unwrap_or_default();
		let quiet = QUIET.with(|q| q.get());
		LAST_PANIC.with(|p| *p.borrow_mut() = Some(format!("panic at {loc}: {msg}")));
		// leave a record of the case in flight: if unwinding aborts the process
		// (panic inside a destructor), the parent still learns which case it was
		if let Some((ptr, call)) = INFLIGHT.with(|i| i.get()) {
			let n = INFLIGHT_COUNT.fetch_add(1, std::sync::atomic::Ordering::Relaxed);
			if n < 64 && INFLIGHT_FILE.with(|f| f.borrow().is_none()) {
				let case = call(ptr);
				let (prop, family) = CURRENT.lock().map(|c| c.clone()).unwrap_or_default();
				let body = json!({"property": prop, "family": family, "case": case, "message": format!("panic at {loc}: {msg} (the process then aborted)")});
				let path = verif_dir().join("replays").join(format!("{}{n}.json", inflight_prefix(std::process::id())));
				if std::fs::write(&path, serde_json::to_string_pretty(&body).unwrap_or_default()).is_ok() {
					INFLIGHT_FILE.with(|f| *f.borrow_mut() = Some(path));
				}
			}
		}
		if !quiet {
			default(info)
		}
	}));
}

/// Runs `f`, turning a panic into `Err(description)`.
pub fn guarded<T>(f: impl FnOnce() -> T) -> Result<T, String> {
	let prev = QUIET.with(|q| q.replace(true));
	let r = catch_unwind(AssertUnwindSafe(f));
	QUIET.with(|q| q.set(prev));
	match r {
		Ok(v) => Ok(v),
		Err(_) => Err(LAST_PANIC
			.with(|p| p.borrow_mut().take())
			.unwrap_or_else(|| "panic (no message)".into())),
	}
}

/// Like `guarded`, additionally registering a description of the case so that
/// a panic-while-unwinding abort can still be attributed to it.
pub fn guarded_with<T, D: Fn() -> J>(desc: &D, f: impl FnOnce() -> T) -> Result<T, String> {
	fn call<D: Fn() -> J>(p: *const ()) -> J {
		unsafe { (*(p as *const D))() }
	}
	let prev = INFLIGHT.with(|i| i.replace(Some((desc as *const D as *const (), call::<D>))));
	let r = guarded(f);
	INFLIGHT.with(|i| i.set(prev));
	// the panic (if any) was caught: the record is not needed
	if let Some(p) = INFLIGHT_FILE.with(|f| f.borrow_mut().take()) {
		let _ = std::fs::remove_file(p);
	}
	r
}

/// Records left behind by a worker that aborted: (path, parsed content).
pub fn collect_inflight(pid: u32) -> Vec<(PathBuf, J)> {
	let dir = verif_dir().join("replays");
	let prefix = inflight_prefix(pid);
	let mut out = vec![];
	if let Ok(rd) = std::fs::read_dir(&dir) {
		for e in rd.flatten() {
			let name = e.file_name().to_string_lossy().to_string();
			if name.starts_with(&prefix) {
				if let Ok(t) = std::fs::read_to_string(e.path()) {
					if let Ok(j) = serde_json::from_str::<J>(&t) {
						out.push((e.path(), j));
					}
				}
			}
		}
	}
	out
}

// ---------------------------------------------------------------------------
// hashing / seeds

pub fn hash64<T: Hash + ?Sized>(t: &T) -> u64 {
	// SipHash with fixed keys: deterministic across processes.
	#[allow(deprecated)]
	let mut h = std::hash::SipHasher::new_with_keys(0x6a73_7600, 0x7665_7269);
	t.hash(&mut h);
	h.finish()
}

pub fn splitmix(mut x: u64) -> u64 {
	x = x.wrapping_add(0x9E37_79B9_7F4A_7C15);
	let mut z = x;
	z = (z ^ (z >> 30)).wrapping_mul(0xBF58_476D_1CE4_E5B9);
	z = (z ^ (z >> 27)).wrapping_mul(0x94D0_49BB_1331_11EB);
	z ^ (z >> 31)
}

pub fn seed_bytes(seed: u64, prop: &str, family: &str, shard: u64) -> [u8; 32] {
	let base = hash64(&(seed, prop, family, shard));
	let mut out = [0u8; 32];
	let mut x = base;
	for chunk in out.chunks_mut(8) {
		x = splitmix(x);
		chunk.copy_from_slice(&x.to_le_bytes());
	}
	out
}

/// A tiny deterministic RNG for places where proptest is not the driver
/// (choosing corpus positions in enumerations etc.). Never used for anything
/// that needs shrinking.
#[derive(Clone)]
pub struct Mix(pub u64);
impl Mix {
	pub fn next(&mut self) -> u64 {
		self.0 = self.0.wrapping_add(0x9E37_79B9_7F4A_7C15);
		splitmix(self.0)
	}
	pub fn below(&mut self, n: u64) -> u64 {
		if n == 0 {
			0
		} else {
			self.next() % n
		}
	}
}

// ---------------------------------------------------------------------------
// families

#[derive(Clone, Debug)]
pub struct Failure {
	pub family: String,
	pub case: J,
	pub message: String,
	/// Machine-computed signature used to match `known_findings.json`.
	pub signature: Option<String>,
}

#[derive(Clone, Debug)]
pub struct Fam {
	pub name: String,
	pub rule: String,
	pub exhaustive: bool,
	pub evaluations: u64,
	/// Non-trivial cases, distinct by construction (enumerations).
	pub nontrivial_counted: u64,
	/// Hashes of non-trivial cases of random families.
	pub nontrivial_hashes: HashSet<u64>,
	pub classes: BTreeMap<String, u64>,
	pub samples: Vec<J>,
	pub failures: Vec<Failure>,
	pub excluded: BTreeMap<String, u64>,
	pub notes: Vec<String>,
}

pub const MAX_SAMPLES: usize = 4;
pub const MAX_FAILURES_PER_FAMILY: usize = 8;

impl Fam {
	pub fn new(name: &str, rule: &str, exhaustive: bool) -> Self {
		Fam {
			name: name.to_string(),
			rule: rule.to_string(),
			exhaustive,
			evaluations: 0,
			nontrivial_counted: 0,
			nontrivial_hashes: HashSet::new(),
			classes: BTreeMap::new(),
			samples: Vec::new(),
			failures: Vec::new(),
			excluded: BTreeMap::new(),
			notes: Vec::new(),
		}
	}

	/// Same name/rule, zero counters (for rayon folds).
	pub fn fresh(&self) -> Self {
		Fam::new(&self.name, &self.rule, self.exhaustive)
	}

	#[inline]
	pub fn tick(&mut self) {
		self.evaluations += 1;
	}

	pub fn class(&mut self, c: &str) {
		*self.classes.entry(c.to_string()).or_insert(0) += 1;
	}

	pub fn class_add(&mut self, c: &str, n: u64) {
		if n > 0 {
			*self.classes.entry(c.to_string()).or_insert(0) += n;
		}
	}

	pub fn exclude(&mut self, c: &str) {
		*self.excluded.entry(c.to_string()).or_insert(0) += 1;
	}

	/// A non-trivial case that is distinct by construction (enumeration).
	#[inline]
	pub fn nontrivial(&mut self) {
		self.nontrivial_counted += 1;
	}

	/// A non-trivial case of a random family; `h` is a hash of the whole case.
	pub fn nontrivial_hashed(&mut self, h: u64) {
		self.nontrivial_hashes.insert(h);
	}

	pub fn wants_sample(&self) -> bool {
		self.samples.len() < MAX_SAMPLES
	}

	pub fn sample(&mut self, s: impl FnOnce() -> J) {
		if self.samples.len() < MAX_SAMPLES {
			self.samples.push(s());
		}
	}

	pub fn fail(&mut self, case: J, message: String, signature: Option<String>) {
		if is_skip(&message) {
			self.exclude(skip_reason(&message));
			return;
		}
		if self.failures.len() < MAX_FAILURES_PER_FAMILY
			|| (signature.is_some()
				&& !self.failures.iter().any(|f| f.signature == signature)
				&& self.failures.len() < 4 * MAX_FAILURES_PER_FAMILY)
		{
			self.failures.push(Failure {
				family: self.name.clone(),
				case,
				message,
				signature,
			});
		} else {
			*self.excluded.entry("further_failures_not_recorded".into()).or_insert(0) += 1;
		}
	}

	pub fn distinct_nontrivial(&self) -> u64 {
		self.nontrivial_counted + self.nontrivial_hashes.len() as u64
	}

	pub fn merge(&mut self, o: Fam) {
		self.evaluations += o.evaluations;
		self.nontrivial_counted += o.nontrivial_counted;
		if self.nontrivial_hashes.is_empty() {
			self.nontrivial_hashes = o.nontrivial_hashes;
		} else {
			self.nontrivial_hashes.extend(o.nontrivial_hashes);
		}
		for (k, v) in o.classes {
			*self.classes.entry(k).or_insert(0) += v;
		}
		for (k, v) in o.excluded {
			*self.excluded.entry(k).or_insert(0) += v;
		}
		for s in o.samples {
			if self.samples.len() < MAX_SAMPLES {
				self.samples.push(s);
			}
		}
		for f in o.failures {
			if self.failures.len() < 4 * MAX_FAILURES_PER_FAMILY {
				self.failures.push(f);
			}
		}
		self.notes.extend(o.notes);
	}

	fn to_json(&self) -> J {
		json!({
			"name": self.name,
			"rule": self.rule,
			"exhaustive": self.exhaustive,
			"evaluations": self.evaluations,
			"distinct_nontrivial": self.distinct_nontrivial(),
			"classes": self.classes,
			"excluded": self.excluded,
			"samples": self.samples,
			"notes": self.notes,
		})
	}
}

// ---------------------------------------------------------------------------
// known findings

#[derive(Clone, Debug)]
pub struct KnownFinding {
	pub id: String,
	pub property: String,
	pub status: String,
	pub signature: String,
	pub what: String,
}

pub fn load_known_findings() -> Vec<KnownFinding> {
	let path = verif_dir().join("known_findings.json");
	let text = match std::fs::read_to_string(&path) {
		Ok(t) => t,
		Err(_) => return Vec::new(),
	};
	let j: J = serde_json::from_str(&text).expect("known_findings.json is not valid JSON");
	let mut out = Vec::new();
	for e in j["findings"].as_array().cloned().unwrap_or_default() {
		out.push(KnownFinding {
			id: e["id"].as_str().unwrap_or("").to_string(),
			property: e["property"].as_str().unwrap_or("").to_string(),
			status: e["status"].as_str().unwrap_or("").to_string(),
			signature: e["signature"].as_str().unwrap_or("").to_string(),
			what: e["what"].as_str().unwrap_or("").to_string(),
		});
	}
	out
}

// ---------------------------------------------------------------------------
// context

pub struct Ctx {
	pub prop: &'static str,
	pub tier: Tier,
	pub seed: u64,
	pub fams: Vec<Fam>,
	pub assumptions: Vec<String>,
	pub rule: String,
	t0: Instant,
	/// Set when a watchdog / resource limit made part of the run inconclusive.
	pub inconclusive: Vec<String>,
}

impl Ctx {
	pub fn new(prop: &'static str, tier: Tier, seed: u64) -> Self {
		Ctx {
			prop,
			tier,
			seed,
			fams: Vec::new(),
			assumptions: Vec::new(),
			rule: String::new(),
			t0: Instant::now(),
			inconclusive: Vec::new(),
		}
	}

	pub fn quick(&self) -> bool {
		self.tier == Tier::Quick
	}

	pub fn pick<T>(&self, q: T, t: T) -> T {
		if self.quick() {
			q
		} else {
			t
		}
	}

	pub fn add(&mut self, fam: Fam) {
		write_progress(self.prop, &format!("after:{}", fam.name));
		eprintln!(
			"[{}] family {:<28} evaluations={:>12} nontrivial={:>12} failures={} ({:.1}s)",
			self.prop,
			fam.name,
			fam.evaluations,
			fam.distinct_nontrivial(),
			fam.failures.len(),
			self.t0.elapsed().as_secs_f64()
		);
		// merge with an existing family of the same name
		if let Some(f) = self.fams.iter_mut().find(|f| f.name == fam.name) {
			f.merge(fam);
		} else {
			self.fams.push(fam);
		}
	}

	/// Development aid: `JSV_ONLY=substr,substr` restricts a run to some families
	/// (such a run is partial and never registered in MANIFEST.json).
	pub fn wants(&self, name: &str) -> bool {
		match std::env::var("JSV_ONLY") {
			Ok(f) if !f.is_empty() => f.split(',').any(|x| name.contains(x)),
			_ => true,
		}
	}

	pub fn begin_family(&self, name: &str) {
		set_current(self.prop, name);
		write_progress(self.prop, &format!("in:{name}"));
	}

	pub fn assume(&mut self, s: &str) {
		self.assumptions.push(s.to_string());
	}

	/// Writes replays + evidence, prints VIOLATION / KNOWN-FINDING lines,
	/// returns the process exit code.
	pub fn finish(self) -> i32 {
		let known = load_known_findings();
		let vdir = verif_dir();
		let replay_dir = vdir.join("replays");
		let _ = std::fs::create_dir_all(&replay_dir);
		let _ = std::fs::create_dir_all(vdir.join("evidence"));

		let mut violations: Vec<(PathBuf, Failure)> = Vec::new();
		let mut known_hits: BTreeMap<String, (u64, String, String)> = BTreeMap::new();

		for fam in &self.fams {
			for f in &fam.failures {
				let open = f.signature.as_ref().and_then(|sig| {
					known
						.iter()
						.find(|k| k.status == "open" && k.property == self.prop && &k.signature == sig)
				});
				match open {
					Some(k) => {
						let e = known_hits
							.entry(k.id.clone())
							.or_insert((0, k.what.clone(), f.message.clone()));
						e.0 += 1;
					}
					None => {
						let body = json!({
							"property": self.prop,
							"family": f.family,
							"case": f.case,
							"message": f.message,
							"signature": f.signature,
							"seed": self.seed,
							"tier": self.tier.name(),
						});
						let text = serde_json::to_string_pretty(&body).unwrap();
						let h = hash64(&(self.prop, &f.family, serde_json::to_string(&f.case).unwrap()));
						let path = replay_dir.join(format!("{}-{:016x}.json", self.prop, h));
						let _ = std::fs::write(&path, text);
						violations.push((path, f.clone()));
					}
				}
			}
		}

		// totals counted by the proptest driver (it records one example per shard only)
		for k in known.iter().filter(|k| k.status == "open" && k.property == self.prop) {
			let total: u64 = self.fams.iter().map(|f| f.excluded.get(&format!("known:{}", k.signature)).copied().unwrap_or(0)).sum();
			if let Some(e) = known_hits.get_mut(&k.id) {
				e.0 = e.0.max(total);
			}
		}
		for (id, (n, what, msg)) in &known_hits {
			println!(
				"KNOWN-FINDING: property={} id={} occurrences={} {} [e.g. {}]",
				self.prop,
				id,
				n,
				what,
				truncate(msg, 200)
			);
		}
		let mut seen = HashSet::new();
		let mut printed = 0;
		for (path, f) in &violations {
			if seen.insert(path.clone()) {
				printed += 1;
				if printed <= 8 {
					println!("VIOLATION property={} replay={}", self.prop, path.display());
					eprintln!("  family={} : {}", f.family, truncate(&f.message, 600));
				}
			}
		}
		if printed > 8 {
			eprintln!("  ... and {} more violating cases (replay files written under {})", printed - 8, replay_dir.display());
		}

		let evaluations: u64 = self.fams.iter().map(|f| f.evaluations).sum();
		let distinct: u64 = self.fams.iter().map(|f| f.distinct_nontrivial()).sum();
		let all_exhaustive = !self.fams.is_empty() && self.fams.iter().all(|f| f.exhaustive);
		let mut samples: Vec<J> = Vec::new();
		for f in &self.fams {
			for s in f.samples.iter().take(2) {
				samples.push(json!({"family": f.name, "case": s}));
			}
		}
		let vacuous: Vec<String> = self
			.fams
			.iter()
			.filter(|f| f.distinct_nontrivial() == 0 && f.failures.is_empty())
			.map(|f| f.name.clone())
			.collect();

		let rule = if self.rule.is_empty() {
			self.fams
				.iter()
				.map(|f| format!("[{}] {}", f.name, f.rule))
				.collect::<Vec<_>>()
				.join(" ; ")
		} else {
			self.rule.clone()
		};

		let evidence = json!({
			"property_id": self.prop,
			"tier": self.tier.name(),
			"seed": self.seed,
			"level": "exploration",
			"coverage": {
				"evaluations": evaluations,
				"distinct_nontrivial": distinct,
				"rule": rule,
				"samples": samples,
				"exhaustive": all_exhaustive,
				"families": self.fams.iter().map(|f| f.to_json()).collect::<Vec<_>>(),
				"known_findings_hit": known_hits.iter().map(|(id,(n,what,_))| json!({"id": id, "occurrences": n, "what": what})).collect::<Vec<_>>(),
				"inconclusive": self.inconclusive,
			},
			"assumptions": self.assumptions,
			"wall_s": self.t0.elapsed().as_secs_f64(),
			"violations": violations.len(),
		});
		let epath = vdir.join("evidence").join(format!("{}.json", self.prop));
		std::fs::write(&epath, serde_json::to_string_pretty(&evidence).unwrap())
			.expect("cannot write evidence");
		clear_progress(self.prop);

		if !violations.is_empty() {
			return 1;
		}
		if !self.inconclusive.is_empty() {
			eprintln!("INCONCLUSIVE: {}", self.inconclusive.join("; "));
			return 2;
		}
		if !vacuous.is_empty() {
			eprintln!(
				"INCONCLUSIVE: families without any non-trivial case (generator broken?): {:?}",
				vacuous
			);
			return 2;
		}
		0
	}
}

/// At most `n` characters of `s` on one line: control characters (NUL, newlines, ESC, ...) are written as
/// `\u{..}` escapes so that the report lines stay plain text for line-oriented tools (a raw NUL makes `grep`
/// treat the whole output as binary and hide the VIOLATION lines).
pub fn truncate(s: &str, n: usize) -> String {
	let mut out = String::new();
	for (i, c) in s.chars().enumerate() {
		if i >= n {
			out.push('…');
			break;
		}
		if c.is_control() || c == '\u{2028}' || c == '\u{2029}' {
			out.push_str(&format!("\\u{{{:x}}}", c as u32));
		} else {
			out.push(c);
		}
	}
	out
}

fn progress_path(prop: &str) -> PathBuf {
	verif_dir().join("replays").join(format!(".progress-{prop}"))
}

pub fn write_progress(prop: &str, s: &str) {
	let p = progress_path(prop);
	let _ = std::fs::create_dir_all(p.parent().unwrap());
	let _ = std::fs::write(p, s);
}

pub fn read_progress(prop: &str) -> Option<String> {
	std::fs::read_to_string(progress_path(prop)).ok()
}

pub fn clear_progress(prop: &str) {
	let _ = std::fs::remove_file(progress_path(prop));
}

// ---------------------------------------------------------------------------
// proptest driver

/// What a property function reports about one generated case.
pub struct Outcome {
	pub nontrivial: bool,
	pub classes: Vec<&'static str>,
	/// `Err((message, signature))`
	pub verdict: Result<(), (String, Option<String>)>,
}

impl Outcome {
	pub fn ok(nontrivial: bool, classes: Vec<&'static str>) -> Self {
		Outcome {
			nontrivial,
			classes,
			verdict: Ok(()),
		}
	}
	pub fn fail(msg: String) -> Self {
		Outcome {
			nontrivial: false,
			classes: vec![],
			verdict: Err((msg, None)),
		}
	}
	pub fn fail_sig(msg: String, sig: &str) -> Self {
		Outcome {
			nontrivial: false,
			classes: vec![],
			verdict: Err((msg, Some(sig.to_string()))),
		}
	}
}

/// Convention: a property function answers `Err("SKIP: <reason>")` when the *premise* of its property is not met
/// on a case because of something another property is responsible for (typically: the parser rejected a valid
/// document, so "when parsing succeeds ..." says nothing). Such cases are counted as excluded under the reason and
/// are neither passes nor failures: a check must not raise an alarm for a property that still holds.
pub fn is_skip(msg: &str) -> bool {
	msg.starts_with("SKIP:") || msg.contains(": SKIP:")
}

pub fn skip_reason(msg: &str) -> &str {
	let i = msg.find("SKIP:").map(|i| i + 5).unwrap_or(0);
	let r = msg[i..].trim();
	let end = r.char_indices().nth(90).map(|(i, _)| i).unwrap_or(r.len());
	let r = &r[..end];
	// keep the reason free of case-specific detail so that it aggregates
	r.split(" [").next().unwrap_or(r)
}

/// Runs `total_cases` cases of `strategy` split over `shards` seeded proptest
/// runners (in parallel). `check` is the property; `encode` turns a case into
/// the replay encoding; `hash` gives a hash of the case for distinct counting.
/// Failures carrying a signature listed as *open* in known_findings.json do not
/// stop the shard (they are counted); any other failure is shrunk by proptest
/// and ends the shard.
pub fn run_proptest<S, FS, FC, FE>(
	ctx: &Ctx,
	mut fam: Fam,
	total_cases: u64,
	make_strategy: FS,
	check: FC,
	encode: FE,
) -> Fam
where
	S: Strategy,
	S::Value: std::fmt::Debug,
	FS: Fn() -> S + Sync,
	FC: Fn(&S::Value) -> Outcome + Sync,
	FE: Fn(&S::Value) -> J + Sync,
{
	use rayon::prelude::*;
	ctx.begin_family(&fam.name);
	let shards: u64 = 16.min(total_cases.max(1));
	let per = total_cases.div_ceil(shards);
	let known = load_known_findings();
	let open_sigs: HashSet<String> = known
		.iter()
		.filter(|k| k.status == "open" && k.property == ctx.prop)
		.map(|k| k.signature.clone())
		.collect();
	let proto = fam.fresh();
	let results: Vec<Fam> = (0..shards)
		.into_par_iter()
		.map(|shard| {
			let mut f = proto.fresh();
			let seed = seed_bytes(ctx.seed, ctx.prop, &f.name, shard);
			let rng = TestRng::from_seed(RngAlgorithm::ChaCha, &seed);
			let config = Config {
				cases: per as u32,
				failure_persistence: None,
				max_shrink_iters: 4096,
				max_global_rejects: 65536,
				..Config::default()
			};
			let mut runner = TestRunner::new_with_rng(config, rng);
			let strategy = make_strategy();
			let failed = Cell::new(false);
			let fcell = RefCell::new(&mut f);
			let result = runner.run(&strategy, |v| {
				let counting = !failed.get();
				let out = match guarded_with(&|| encode(&v), || check(&v)) {
					Ok(o) => o,
					Err(p) => Outcome::fail(p),
				};
				match out.verdict {
					Ok(()) => {
						if counting {
							let mut f = fcell.borrow_mut();
							f.tick();
							for c in &out.classes {
								f.class(c);
							}
							if out.nontrivial {
								let e = encode(&v);
								f.nontrivial_hashed(hash64(&serde_json::to_string(&e).unwrap()));
								if f.wants_sample() {
									f.sample(|| e);
								}
							}
						}
						Ok(())
					}
					Err((msg, _)) if is_skip(&msg) => {
						// the premise of this property is not met on this case (e.g. the parser rejected a valid
						// document: another property's business): counted as excluded, neither pass nor failure
						if counting {
							let mut f = fcell.borrow_mut();
							f.tick();
							f.exclude(skip_reason(&msg));
						}
						Ok(())
					}
					Err((msg, sig)) => {
						if let Some(s) = &sig {
							if open_sigs.contains(s) {
								// known finding: count, record once, go on
								if counting {
									let mut f = fcell.borrow_mut();
									f.tick();
									f.exclude(&format!("known:{s}"));
									if !f.failures.iter().any(|x| x.signature.as_deref() == Some(s)) {
										f.fail(encode(&v), msg, sig.clone());
									}
								}
								return Ok(());
							}
						}
						if counting {
							fcell.borrow_mut().tick();
						}
						failed.set(true);
						Err(TestCaseError::fail(match sig {
							Some(s) => format!("[sig:{s}] {msg}"),
							None => msg,
						}))
					}
				}
			});
			drop(fcell);
			match result {
				Ok(()) => {}
				Err(TestError::Fail(reason, value)) => {
					let msg = reason.message().to_string();
					let (sig, msg) = match msg.strip_prefix("[sig:") {
						Some(rest) => match rest.split_once("] ") {
							Some((s, m)) => (Some(s.to_string()), m.to_string()),
							None => (None, msg.clone()),
						},
						None => (None, msg),
					};
					f.fail(encode(&value), format!("{msg} (shrunk by proptest, shard {shard})"), sig);
				}
				Err(TestError::Abort(reason)) => {
					f.notes.push(format!("proptest aborted shard {shard}: {}", reason.message()));
				}
			}
			f
		})
		.collect();
	for r in results {
		fam.merge(r);
	}
	fam
}

/// Draws `n` values from a strategy with a seeded runner (no shrinking);
/// used to build corpora deterministically.
pub fn sample_strategy<S: Strategy>(seed: [u8; 32], strategy: &S, n: usize) -> Vec<S::Value> {
	let rng = TestRng::from_seed(RngAlgorithm::ChaCha, &seed);
	let mut runner = TestRunner::new_with_rng(
		Config {
			failure_persistence: None,
			..Config::default()
		},
		rng,
	);
	(0..n)
		.map(|_| strategy.new_tree(&mut runner).expect("strategy failed").current())
		.collect()
}

pub fn read_replay(path: &Path) -> J {
	let text = std::fs::read_to_string(path).unwrap_or_else(|e| panic!("cannot read {path:?}: {e}"));
	serde_json::from_str(&text).unwrap_or_else(|e| panic!("invalid replay {path:?}: {e}"))
}

// Encoding helpers for replay cases -----------------------------------------

pub fn enc_text(s: &str) -> J {
	json!({"text": s.chars().map(|c| c as u32).collect::<Vec<u32>>(), "shown": truncate(&s.escape_debug().to_string(), 120)})
}

pub fn dec_text(j: &J) -> String {
	j["text"]
		.as_array()
		.expect("text case")
		.iter()
		.map(|c| char::from_u32(c.as_u64().unwrap() as u32).unwrap())
		.collect()
}

pub fn enc_bytes(b: &[u8]) -> J {
	let hex: String = b.iter().map(|x| format!("{x:02x}")).collect();
	json!({"bytes": hex, "shown": truncate(&String::from_utf8_lossy(b).escape_debug().to_string(), 120)})
}

pub fn dec_bytes(j: &J) -> Vec<u8> {
	let h = j["bytes"].as_str().expect("bytes case");
	(0..h.len() / 2)
		.map(|i| u8::from_str_radix(&h[2 * i..2 * i + 2], 16).unwrap())
		.collect()
}
