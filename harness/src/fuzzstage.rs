//! Thorough tier only: runs a libFuzzer campaign (cargo-fuzz, nightly) of the
//! target that serves the property, with the semantic oracle inside the target,
//! and merges what it covered into the evidence file.
use crate::framework::{verif_dir, Tier};
use crate::fuzzglue::targets_of;
use serde_json::{json, Value as J};
use std::path::PathBuf;
use std::process::Command;

pub struct FuzzOutcome {
	/// 0 ok, 1 violation, 2 inconclusive
	pub code: i32,
}

fn campaign(target: &str) -> (u64, &'static str, u32) {
	// (runs, sanitizer, max_len)
	match target {
		"parse_diff" => (3_000_000, "none", 256),
		"print_rt" => (1_500_000, "none", 512),
		"value_laws" => (1_500_000, "none", 512),
		_ => (60_000, "address", 384),
	}
}

pub fn run(prop: &str, tier: Tier, seed: u64) -> Option<FuzzOutcome> {
	if tier != Tier::Thorough {
		return None;
	}
	let targets = targets_of(prop);
	if targets.is_empty() {
		return None;
	}
	// a violation in any campaign wins over an inconclusive one
	let mut code = 0;
	for target in targets {
		match run_one(prop, target, seed)?.code {
			1 => code = 1,
			2 if code == 0 => code = 2,
			_ => {}
		}
	}
	Some(FuzzOutcome { code })
}

fn run_one(prop: &str, target: &str, seed: u64) -> Option<FuzzOutcome> {
	let (runs, sanitizer, max_len) = campaign(target);
	let runs = std::env::var("JSV_FUZZ_RUNS").ok().and_then(|s| s.parse().ok()).unwrap_or(runs);
	let vdir = verif_dir();
	let work: PathBuf = vdir.join("scratch").join(format!("fuzz-{prop}-{target}-{seed}"));
	let _ = std::fs::remove_dir_all(&work);
	let corpus = work.join("corpus");
	let artifacts = work.join("artifacts");
	std::fs::create_dir_all(&corpus).ok()?;
	std::fs::create_dir_all(&artifacts).ok()?;
	let mut seeds = 0;
	if target == "parse_diff" {
		if let Ok(rd) = std::fs::read_dir(vdir.join("corpus").join("jsontestsuite")) {
			for e in rd.flatten() {
				let _ = std::fs::copy(e.path(), corpus.join(e.file_name()));
				seeds += 1;
			}
		}
	} else {
		// a few deterministic random byte strings so that libFuzzer starts at full length
		let mut x = crate::framework::Mix(seed ^ 0x5eed);
		for i in 0..32 {
			let len = 16 + (x.below(200) as usize);
			let bytes: Vec<u8> = (0..len).map(|_| x.next() as u8).collect();
			let _ = std::fs::write(corpus.join(format!("seed{i}")), bytes);
			seeds += 1;
		}
	}
	let stats = work.join("stats.json");
	let fuzz_dir = vdir.join("fuzz");
	let target_dir = fuzz_dir.join(format!("target-{sanitizer}"));
	let t0 = std::time::Instant::now();
	eprintln!("[{prop}] fuzz stage: target {target}, sanitizer {sanitizer}, {runs} runs, seed {} ({} seed files)", seed + 1, seeds);
	let out = Command::new("cargo")
		.current_dir(vdir.join("harness"))
		.args(["+nightly", "fuzz", "run", "--fuzz-dir"])
		.arg(&fuzz_dir)
		.args(["--target-dir"])
		.arg(&target_dir)
		.args(["-s", sanitizer, target])
		.arg(&corpus)
		.arg("--")
		.arg(format!("-runs={runs}"))
		.arg(format!("-seed={}", seed + 1))
		.arg("-len_control=0")
		.arg(format!("-max_len={max_len}"))
		.arg("-timeout=60")
		.arg("-print_final_stats=1")
		.arg(format!("-artifact_prefix={}/", artifacts.display()))
		.env("RUSTFLAGS", "--cfg json_syntax_verif")
		.env("CARGO_NET_OFFLINE", "true")
		.env("JSV_FUZZ_PROP", prop)
		.env("JSV_FUZZ_STATS", &stats)
		.output();
	let out = match out {
		Ok(o) => o,
		Err(e) => {
			eprintln!("INCONCLUSIVE: cannot run cargo fuzz: {e}");
			return Some(FuzzOutcome { code: 2 });
		}
	};
	let stderr = String::from_utf8_lossy(&out.stderr).to_string();
	let done_runs = stderr.lines().rev().find_map(|l| l.strip_prefix("Done ").and_then(|r| r.split(' ').next()).and_then(|n| n.parse::<u64>().ok()));
	let st: J = std::fs::read_to_string(&stats).ok().and_then(|t| serde_json::from_str(&t).ok()).unwrap_or(json!({}));
	let cov = stderr.lines().rev().find(|l| l.contains(" cov: ")).map(|l| l.trim().to_string()).unwrap_or_default();
	// crash / timeout artifacts
	let mut crashes = vec![];
	let mut timeouts = 0;
	if let Ok(rd) = std::fs::read_dir(&artifacts) {
		for e in rd.flatten() {
			let name = e.file_name().to_string_lossy().to_string();
			if name.starts_with("crash-") || name.starts_with("oom-") {
				crashes.push(e.path());
			} else if name.starts_with("timeout-") || name.starts_with("slow-unit-") {
				timeouts += 1;
			}
		}
	}
	let mut code = 0;
	let mut violations = 0;
	for c in &crashes {
		if let Ok(bytes) = std::fs::read(c) {
			let msg = stderr.lines().find(|l| l.contains("JSV-FUZZ-VIOLATION")).unwrap_or("the fuzz target crashed (panic / sanitizer report)").to_string();
			let body = json!({
				"property": prop,
				"family": format!("fuzz:{target}"),
				"case": crate::framework::enc_bytes(&bytes),
				"message": msg,
				"seed": seed,
				"tier": "thorough",
			});
			let path = vdir.join("replays").join(format!("{prop}-fuzz-{:016x}.json", crate::framework::hash64(&bytes)));
			let _ = std::fs::create_dir_all(vdir.join("replays"));
			if std::fs::write(&path, serde_json::to_string_pretty(&body).unwrap()).is_ok() {
				println!("VIOLATION property={} replay={}", prop, path.display());
				eprintln!("  family=fuzz:{target} : {}", crate::framework::truncate(&msg, 400));
				violations += 1;
				code = 1;
			}
		}
	}
	if code == 0 && !out.status.success() {
		if stderr.contains("could not compile") || stderr.contains("error[E") {
			eprintln!("INCONCLUSIVE: the fuzz target does not build:\n{}", crate::framework::truncate(&stderr[stderr.find("error").unwrap_or(0)..], 1500));
		} else {
			eprintln!("INCONCLUSIVE: cargo fuzz ended with {:?} without a crash artifact ({} timeouts)\n{}", out.status.code(), timeouts, crate::framework::truncate(&stderr[stderr.len().saturating_sub(1500)..], 1500));
		}
		code = 2;
	}
	// merge into the evidence file written by the worker
	let epath = vdir.join("evidence").join(format!("{prop}.json"));
	if let Ok(text) = std::fs::read_to_string(&epath) {
		if let Ok(mut ev) = serde_json::from_str::<J>(&text) {
			let runs_done = done_runs.or(st["runs"].as_u64()).unwrap_or(0);
			let nt = st["distinct_nontrivial"].as_u64().unwrap_or(0);
			let fam = json!({
				"name": format!("Z_fuzz_{target}"),
				"rule": format!("libFuzzer (cargo-fuzz, sanitizer {sanitizer}, debug assertions on) campaign of target {target} with this property's oracle inside the target; -runs={runs} -seed={} -len_control=0 -max_len={max_len}, fresh corpus of {seeds} seed files; distinct non-trivial inputs counted inside the target (flushed every 2000 runs); pinned only approximately by the seed: the reproducible unit is a saved crash input", seed + 1),
				"exhaustive": false,
				"evaluations": runs_done,
				"distinct_nontrivial": nt,
				"classes": {"timeouts": timeouts, "crash_artifacts": crashes.len()},
				"excluded": {},
				"samples": [{"libfuzzer_final_line": cov}],
				"notes": [format!("wall {:.0}s including the build", t0.elapsed().as_secs_f64())],
			});
			if let Some(c) = ev.get_mut("coverage") {
				if let Some(f) = c.get_mut("families").and_then(|f| f.as_array_mut()) {
					f.push(fam);
				}
				let e = c["evaluations"].as_u64().unwrap_or(0) + runs_done;
				let d = c["distinct_nontrivial"].as_u64().unwrap_or(0) + nt;
				c["evaluations"] = json!(e);
				c["distinct_nontrivial"] = json!(d);
				c["exhaustive"] = json!(false);
			}
			let v = ev["violations"].as_u64().unwrap_or(0) + violations;
			ev["violations"] = json!(v);
			let w = ev["wall_s"].as_f64().unwrap_or(0.0) + t0.elapsed().as_secs_f64();
			ev["wall_s"] = json!(w);
			let _ = std::fs::write(&epath, serde_json::to_string_pretty(&ev).unwrap());
		}
	}
	let _ = std::fs::remove_dir_all(&work);
	eprintln!("[{prop}] fuzz stage done: runs={:?} {} ({:.0}s) exit={code}", done_runs, cov, t0.elapsed().as_secs_f64());
	Some(FuzzOutcome { code })
}
