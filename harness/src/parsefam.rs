//! Input families shared by the parser properties (C01, C03, C07, C12):
//! exhaustive strings over a character alphabet (F1) and a token alphabet (F2),
//! transition cover of the lexical sub-languages (F3), byte-level corpus edits
//! (F4), exhaustive UTF-8 sequences (F6). Each enumerator calls a per-property
//! checker on every input; the checker owns the oracle.
use crate::framework::{enc_bytes, hash64, seed_bytes, Ctx, Fam};
use crate::gen;
use crate::refjson::ref_parse;
use rayon::prelude::*;
use std::collections::HashSet;

pub const NCLASS: usize = 24;

/// Per-thread accumulator of a text/bytes family.
pub struct Acc {
	pub evals: u64,
	pub nontrivial: u64,
	pub classes: [u64; NCLASS],
	pub fails: Vec<(Vec<u8>, String, Option<String>)>,
	pub samples: Vec<Vec<u8>>,
	/// When `Some`, non-trivial cases are counted by hash (families that can
	/// produce the same input twice).
	pub distinct: Option<HashSet<u64>>,
	pub excluded: [u64; 4],
}

impl Acc {
	pub fn new(hashed: bool) -> Self {
		Acc {
			evals: 0,
			nontrivial: 0,
			classes: [0; NCLASS],
			fails: Vec::new(),
			samples: Vec::new(),
			distinct: if hashed { Some(HashSet::new()) } else { None },
			excluded: [0; 4],
		}
	}

	#[inline]
	pub fn nontrivial(&mut self, input: &[u8]) {
		match &mut self.distinct {
			Some(set) => {
				set.insert(hash64(input));
			}
			None => self.nontrivial += 1,
		}
		if self.samples.len() < 3 && input.len() > 1 {
			self.samples.push(input.to_vec());
		}
	}

	#[inline]
	pub fn class(&mut self, c: usize) {
		self.classes[c] += 1;
	}

	pub fn fail(&mut self, input: &[u8], msg: String) {
		self.fail_sig(input, msg, None)
	}

	pub fn fail_sig(&mut self, input: &[u8], msg: String, sig: Option<String>) {
		if crate::framework::is_skip(&msg) {
			// premise of the property not met on this input (framework::is_skip): excluded, not a failure
			self.excluded[0] += 1;
			return;
		}
		if self.fails.len() < 4 {
			self.fails.push((input.to_vec(), msg, sig));
		} else if let Some(worst) = self.fails.iter().map(|f| f.0.len()).max() {
			// keep the shortest failing inputs
			if input.len() < worst {
				let idx = self.fails.iter().position(|f| f.0.len() == worst).unwrap();
				self.fails[idx] = (input.to_vec(), msg, sig);
			}
		}
	}

	pub fn merge(mut self, o: Acc) -> Acc {
		self.evals += o.evals;
		self.nontrivial += o.nontrivial;
		for i in 0..NCLASS {
			self.classes[i] += o.classes[i];
		}
		for i in 0..4 {
			self.excluded[i] += o.excluded[i];
		}
		for f in o.fails {
			self.fail_sig(&f.0, f.1, f.2);
		}
		for s in o.samples {
			if self.samples.len() < 3 {
				self.samples.push(s);
			}
		}
		match (&mut self.distinct, o.distinct) {
			(Some(a), Some(b)) => {
				if a.len() < b.len() {
					let mut b = b;
					b.extend(a.drain());
					*a = b;
				} else {
					a.extend(b);
				}
			}
			_ => {}
		}
		self
	}

	pub fn into_fam(mut self, name: &str, rule: &str, exhaustive: bool, class_names: &[&str], extra: &serde_json::Value) -> Fam {
		let mut fam = Fam::new(name, rule, exhaustive);
		fam.evaluations = self.evals;
		fam.nontrivial_counted = self.nontrivial;
		if let Some(set) = self.distinct.take() {
			fam.nontrivial_hashes = set;
		}
		for (i, n) in class_names.iter().enumerate() {
			fam.class_add(n, self.classes[i]);
		}
		for s in &self.samples {
			fam.samples.push(case_json(s, extra));
		}
		for _ in 0..self.excluded[0].min(1) {
			*fam.excluded.entry("premise_not_met(parser_verdict_differs_from_reference)".to_string()).or_insert(0) += self.excluded[0];
		}
		// shortest first
		self.fails.sort_by_key(|f| (f.0.len(), f.0.clone()));
		for (input, msg, sig) in self.fails {
			fam.fail(case_json(&input, extra), msg, sig);
		}
		fam
	}
}

pub fn case_json(input: &[u8], extra: &serde_json::Value) -> serde_json::Value {
	let mut j = enc_bytes(input);
	if let (Some(o), Some(e)) = (j.as_object_mut(), extra.as_object()) {
		for (k, v) in e {
			o.insert(k.clone(), v.clone());
		}
	}
	j
}

pub type Check<'a> = &'a (dyn Fn(&mut Acc, &[u8]) + Sync);

fn run_guarded(check: Check, acc: &mut Acc, input: &[u8]) {
	acc.evals += 1;
	if let Err(p) = crate::framework::guarded(|| check(acc, input)) {
		acc.fail(input, format!("panic inside the check: {p}"));
	}
}

// ---------------------------------------------------------------------------
// F1: every string up to a length over an ASCII alphabet

pub const F1_ALPHABET: &[u8] = b"[]{},:\"\\01-.e+ una";

fn dfs(alphabet: &[u8], buf: &mut Vec<u8>, max_len: usize, check: Check, acc: &mut Acc) {
	run_guarded(check, acc, buf);
	if buf.len() < max_len {
		for &a in alphabet {
			buf.push(a);
			dfs(alphabet, buf, max_len, check, acc);
			buf.pop();
		}
	}
}

/// All strings over `alphabet` of length `min_len..=max_len`.
pub fn enum_strings(alphabet: &[u8], min_len: usize, max_len: usize, hashed: bool, check: Check) -> Acc {
	// parallel over 2-symbol prefixes
	let mut acc = Acc::new(hashed);
	let split = 2usize;
	// short strings serially
	fn short(alphabet: &[u8], buf: &mut Vec<u8>, len: usize, min_len: usize, check: Check, acc: &mut Acc) {
		if buf.len() == len {
			if len >= min_len {
				run_guarded(check, acc, buf);
			}
			return;
		}
		for &a in alphabet {
			buf.push(a);
			short(alphabet, buf, len, min_len, check, acc);
			buf.pop();
		}
	}
	for len in 0..split.min(max_len + 1) {
		short(alphabet, &mut Vec::new(), len, min_len, check, &mut acc);
	}
	if max_len < split {
		return acc;
	}
	let prefixes: Vec<Vec<u8>> = alphabet
		.iter()
		.flat_map(|&a| alphabet.iter().map(move |&b| vec![a, b]))
		.collect();
	// a third level of splitting keeps the 16 cores busy to the end
	let tasks: Vec<Vec<u8>> = if max_len >= 5 {
		let mut t: Vec<Vec<u8>> = prefixes.clone();
		// the prefix itself is evaluated in the task of its first extension (see below)
		t = t
			.into_iter()
			.flat_map(|p| {
				alphabet.iter().map(move |&c| {
					let mut q = p.clone();
					q.push(c);
					q
				})
			})
			.collect();
		t
	} else {
		prefixes.clone()
	};
	let deep = max_len >= 5;
	let first = alphabet[0];
	let r = tasks
		.into_par_iter()
		.fold(
			|| Acc::new(hashed),
			|mut acc, prefix| {
				let mut buf = prefix.clone();
				if deep {
					// the 2-symbol prefix is owned by the task whose third symbol is the first of the alphabet
					if prefix[2] == first && min_len <= 2 {
						run_guarded(check, &mut acc, &prefix[..2]);
					}
					if min_len <= buf.len() {
						dfs(alphabet, &mut buf, max_len, check, &mut acc);
					} else {
						dfs_min(alphabet, &mut buf, min_len, max_len, check, &mut acc);
					}
				} else if min_len <= buf.len() {
					dfs(alphabet, &mut buf, max_len, check, &mut acc);
				} else {
					dfs_min(alphabet, &mut buf, min_len, max_len, check, &mut acc);
				}
				acc
			},
		)
		.reduce(|| Acc::new(hashed), Acc::merge);
	acc.merge(r)
}

fn dfs_min(alphabet: &[u8], buf: &mut Vec<u8>, min_len: usize, max_len: usize, check: Check, acc: &mut Acc) {
	if buf.len() >= min_len {
		run_guarded(check, acc, buf);
	}
	if buf.len() < max_len {
		for &a in alphabet {
			buf.push(a);
			dfs_min(alphabet, buf, min_len, max_len, check, acc);
			buf.pop();
		}
	}
}

// ---------------------------------------------------------------------------
// F2: every sequence of tokens

pub fn f2_tokens() -> Vec<String> {
	vec![
		"[".into(),
		"]".into(),
		"{".into(),
		"}".into(),
		",".into(),
		":".into(),
		"\"k\"".into(),
		"\"\"".into(),
		"0".into(),
		"-1.5e+2".into(),
		"true".into(),
		"null".into(),
		" ".into(),
		"\n".into(),
		"\"\u{e9}\\n\"".into(),
		"x".into(),
	]
}

pub fn enum_token_seqs(tokens: &[String], max_tokens: usize, check: Check) -> Acc {
	let n = tokens.len();
	// tasks: first two tokens
	let mut acc = Acc::new(true);
	run_guarded(check, &mut acc, b"");
	for t in tokens {
		run_guarded(check, &mut acc, t.as_bytes());
	}
	if max_tokens < 2 {
		return acc;
	}
	let tasks: Vec<(usize, usize)> = (0..n).flat_map(|a| (0..n).map(move |b| (a, b))).collect();
	fn rec(tokens: &[String], buf: &mut Vec<u8>, depth: usize, max: usize, check: Check, acc: &mut Acc) {
		run_guarded(check, acc, buf);
		if depth < max {
			for t in tokens {
				let l = buf.len();
				buf.extend_from_slice(t.as_bytes());
				rec(tokens, buf, depth + 1, max, check, acc);
				buf.truncate(l);
			}
		}
	}
	let r = tasks
		.into_par_iter()
		.fold(
			|| Acc::new(true),
			|mut acc, (a, b)| {
				let mut buf = Vec::new();
				buf.extend_from_slice(tokens[a].as_bytes());
				buf.extend_from_slice(tokens[b].as_bytes());
				rec(tokens, &mut buf, 2, max_tokens, check, &mut acc);
				acc
			},
		)
		.reduce(|| Acc::new(true), Acc::merge);
	acc.merge(r)
}

// ---------------------------------------------------------------------------
// F3: transition cover

pub fn probe_chars() -> Vec<char> {
	let mut v: Vec<char> = (0u8..128).map(|b| b as char).collect();
	v.extend([
		'\u{80}', '\u{a0}', '\u{7ff}', '\u{800}', '\u{2028}', '\u{feff}', '\u{fffd}', '\u{ffff}', '\u{10000}', '\u{10ffff}',
		'\u{660}', '\u{ff11}', '\u{ff21}', '\u{85}', '\u{3000}',
	]);
	// characters that collapse onto a JSON-significant ASCII character under a truncating cast
	// (low 7, 8 or 16 bits equal) - catches `c as u8 == b'x'`-style comparisons
	for a in "[]{},:\"\\/-+.eE0159 \t\n\rnulltruefalsbr".chars() {
		for off in [0x80u32, 0x100, 0x7D00, 0x1_0000, 0x10_0000] {
			if let Some(c) = char::from_u32(a as u32 + off) {
				if !v.contains(&c) {
					v.push(c);
				}
			}
		}
	}
	v
}

/// Viable prefixes of the number sub-language up to `max_len` symbols over
/// one representative per character class.
pub fn number_prefixes(max_len: usize) -> Vec<String> {
	let symbols = ['-', '0', '1', '9', '.', 'e', 'E', '+'];
	let mut out = vec![];
	let mut frontier = vec![String::new()];
	for _ in 0..max_len {
		let mut next = vec![];
		for p in &frontier {
			for s in symbols {
				let mut q = p.clone();
				q.push(s);
				// viable as a number prefix iff the automaton, fed the prefix alone, has not died
				// and is still inside the number (no trailing character processed after it)
				let chars: Vec<char> = q.chars().collect();
				let r = ref_parse(&chars, false);
				let viable = match r.syntax_err {
					None => true,
					Some((i, _)) => i == chars.len(),
				};
				if viable {
					next.push(q);
				}
			}
		}
		out.extend(next.iter().cloned());
		frontier = next;
	}
	out
}

pub fn lexical_prefixes(num_len: usize) -> Vec<(String, bool)> {
	// (prefix, is_string)
	let mut v: Vec<(String, bool)> = vec![];
	for p in number_prefixes(num_len) {
		v.push((p, false));
	}
	for lit in ["null", "true", "false"] {
		for k in 1..=lit.len() {
			v.push((lit[..k].to_string(), false));
		}
	}
	let hi = "\\uD800";
	let lo = "\\uDC00";
	let mut strs: Vec<String> = vec![
		"\"".into(),
		"\"a".into(),
		"\"\\".into(),
		"\"\\u".into(),
		"\"\\u0".into(),
		"\"\\u00".into(),
		"\"\\u004".into(),
		"\"\\u0041".into(),
		"\"\\uaB".into(),
		"\"\\uFf".into(),
		"\"\u{e9}".into(),
		"\"\u{10000}".into(),
		"\"\"".into(),
		"\"a\"".into(),
	];
	for e in ['"', '\\', '/', 'b', 'f', 'n', 'r', 't'] {
		strs.push(format!("\"\\{e}"));
	}
	strs.push(format!("\"{hi}"));
	strs.push(format!("\"{hi}\\"));
	strs.push(format!("\"{hi}\\u"));
	strs.push(format!("\"{hi}\\uDC0"));
	strs.push(format!("\"{hi}{lo}"));
	strs.push(format!("\"{lo}"));
	strs.push(format!("\"{hi}a"));
	for s in strs {
		v.push((s, true));
	}
	v
}

pub fn structural_prefixes() -> Vec<String> {
	[
		"", " ", "[", "[ ", "[1", "[1 ", "[1,", "[1, ", "[[", "[]", "[[]", "{", "{ ", "{\"a\"", "{\"a\" ", "{\"a\":", "{\"a\": ", "{\"a\":1",
		"{\"a\":1 ", "{\"a\":1,", "{\"a\":1, ", "{}", "{\"a\":{}", "{\"a\":[", "[{", "[{}", "1", "1 ", "null", "null ", "\"a\"", "\"a\" ",
		"[1]", "{\"a\":1}", "[1] ", "[null", "[true", "[\"a\"", "{\"a\":null", "{\"a\":\"b\"",
	]
	.iter()
	.map(|s| s.to_string())
	.collect()
}

/// Builds the F3 inputs (deduplicated).
pub fn f3_inputs(num_len: usize) -> Vec<String> {
	let probes = probe_chars();
	let mut set: HashSet<String> = HashSet::new();
	let mut push = |s: String| {
		set.insert(s);
	};
	let lex = lexical_prefixes(num_len);
	for (p, is_string) in &lex {
		let mut contexts: Vec<String> = vec![p.clone(), format!("[{p}"), format!("{{\"k\":{p}")];
		if *is_string {
			contexts.push(format!("{{{p}"));
		}
		for ctx in contexts {
			for &c in &probes {
				let mut s = ctx.clone();
				s.push(c);
				// deviation last
				push(s.clone());
				// deviation followed by the shortest completion (or by filler when dead)
				let chars: Vec<char> = s.chars().collect();
				let r = ref_parse(&chars, false);
				match r.completion {
					Some(c) if !c.is_empty() => push(format!("{s}{c}")),
					Some(_) => push(format!("{s} ")),
					None => push(format!("{s}0]")),
				}
			}
		}
	}
	for p in structural_prefixes() {
		for &c in &probes {
			let mut s = p.clone();
			s.push(c);
			push(s.clone());
			let chars: Vec<char> = s.chars().collect();
			let r = ref_parse(&chars, false);
			match r.completion {
				Some(c) if !c.is_empty() => push(format!("{s}{c}")),
				Some(_) => push(format!("{s} ")),
				None => push(format!("{s}1}}")),
			}
		}
	}
	let mut v: Vec<String> = set.into_iter().collect();
	v.sort();
	v
}

pub fn run_list(inputs: &[Vec<u8>], hashed: bool, check: Check) -> Acc {
	inputs
		.par_chunks(256)
		.fold(
			|| Acc::new(hashed),
			|mut acc, chunk| {
				for i in chunk {
					run_guarded(check, &mut acc, i);
				}
				acc
			},
		)
		.reduce(|| Acc::new(hashed), Acc::merge)
}

// ---------------------------------------------------------------------------
// corpus

pub fn load_corpus(ctx: &Ctx, generated: usize) -> Vec<Vec<u8>> {
	let dir = crate::framework::verif_dir().join("corpus").join("jsontestsuite");
	let mut files: Vec<_> = std::fs::read_dir(&dir)
		.unwrap_or_else(|e| panic!("corpus {dir:?}: {e}"))
		.map(|e| e.unwrap().path())
		.collect();
	files.sort();
	let mut out: Vec<Vec<u8>> = files.iter().map(|p| std::fs::read(p).unwrap()).collect();
	out.extend(generated_docs(ctx, generated).into_iter().map(String::into_bytes));
	out
}

/// Deterministic generated documents (valid JSON, free rendering).
pub fn generated_docs(ctx: &Ctx, n: usize) -> Vec<String> {
	let strat = (gen::arb_container_value(gen::ValueCfg::SMALL), gen::arb_choices());
	let seed = seed_bytes(ctx.seed, "corpus", "generated", 0);
	crate::framework::sample_strategy(seed, &strat, n)
		.into_iter()
		.map(|(v, ch)| gen::render_doc(&v, &ch, gen::RenderCfg::FREE))
		.collect()
}

pub const PROBE_BYTES: &[u8] = &[
	b'[', b']', b'{', b'}', b',', b':', b'"', b'\\', b'0', b'1', b'-', b'.', b'e', b' ', b'\n', b'u', b'x', 0x00, 0x1f, 0x7f, 0x80, 0xc0,
	0xe0, 0xf4, 0xff,
];

/// F4: truncation, deletion, replacement and insertion at every offset.
pub fn corpus_edits(corpus: &[Vec<u8>], probes: &[u8], check: Check) -> Acc {
	corpus
		.par_iter()
		.fold(
			|| Acc::new(true),
			|mut acc, doc| {
				let mut buf: Vec<u8> = Vec::with_capacity(doc.len() + 1);
				run_guarded(check, &mut acc, doc);
				for off in 0..=doc.len() {
					// truncate
					run_guarded(check, &mut acc, &doc[..off]);
					// insert
					for &p in probes {
						buf.clear();
						buf.extend_from_slice(&doc[..off]);
						buf.push(p);
						buf.extend_from_slice(&doc[off..]);
						run_guarded(check, &mut acc, &buf);
					}
					if off < doc.len() {
						// delete
						buf.clear();
						buf.extend_from_slice(&doc[..off]);
						buf.extend_from_slice(&doc[off + 1..]);
						run_guarded(check, &mut acc, &buf);
						// replace
						for &p in probes {
							if p != doc[off] {
								buf.clear();
								buf.extend_from_slice(doc);
								buf[off] = p;
								run_guarded(check, &mut acc, &buf);
							}
						}
					}
				}
				acc
			},
		)
		.reduce(|| Acc::new(true), Acc::merge)
}

// ---------------------------------------------------------------------------
// F6: exhaustive UTF-8 sequences in contexts

pub const F6_CONTEXTS: &[(&[u8], &[u8])] = &[
	(b"", b""),
	(b"\"", b"\""),
	(b"{\"", b"\":0}"),
	(b"1", b""),
	(b"[", b"]"),
	(b" ", b" "),
	(b"\"a ", b"\\n\""),
	(b"[1,", b""),
];

/// Every 2-byte sequence and every 3-byte sequence whose first byte is >= 0x80,
/// in each of `contexts`; plus 4-byte sequences (all first and second bytes,
/// `tail` values for the third and fourth).
pub fn utf8_exhaustive(contexts: &[(&[u8], &[u8])], tail: &[u8], check: Check) -> Acc {
	let firsts: Vec<u16> = (0u16..256).collect();
	firsts
		.into_par_iter()
		.fold(
			|| Acc::new(false),
			|mut acc, b0| {
				let b0 = b0 as u8;
				let mut buf: Vec<u8> = Vec::with_capacity(32);
				for (pre, post) in contexts {
					// 2-byte
					for b1 in 0u16..256 {
						buf.clear();
						buf.extend_from_slice(pre);
						buf.push(b0);
						buf.push(b1 as u8);
						buf.extend_from_slice(post);
						run_guarded(check, &mut acc, &buf);
					}
					if b0 >= 0x80 {
						for b1 in 0u16..256 {
							for b2 in 0u16..256 {
								buf.clear();
								buf.extend_from_slice(pre);
								buf.push(b0);
								buf.push(b1 as u8);
								buf.push(b2 as u8);
								buf.extend_from_slice(post);
								run_guarded(check, &mut acc, &buf);
							}
						}
					}
				}
				// 4-byte sequences in two contexts
				if b0 >= 0xc0 {
					for (pre, post) in &contexts[..2.min(contexts.len())] {
						for b1 in 0u16..256 {
							for &b2 in tail {
								for &b3 in tail {
									buf.clear();
									buf.extend_from_slice(pre);
									buf.extend_from_slice(&[b0, b1 as u8, b2, b3]);
									buf.extend_from_slice(post);
									run_guarded(check, &mut acc, &buf);
								}
							}
						}
					}
				}
				acc
			},
		)
		.reduce(|| Acc::new(false), Acc::merge)
}

pub const UTF8_TAIL_QUICK: &[u8] = &[0x00, 0x22, 0x7f, 0x80, 0x8f, 0x90, 0xbf, 0xc0];
