//! Glue between coverage-guided fuzz targets (../fuzz) and the property
//! functions: byte decoders (hand-written over `arbitrary::Unstructured`), the
//! per-property oracle dispatch, run statistics flushed to a file, and replay
//! of saved crash inputs.
use crate::props::{self, c06, printing::OptCase};
use crate::refprint::{Lim, Opts};
use crate::refvalue::RefValue;
use arbitrary::Unstructured;
use std::collections::HashSet;
use std::sync::Mutex;

pub struct Stats {
	pub runs: u64,
	pub nontrivial: HashSet<u64>,
	pub since_flush: u64,
}

static STATS: Mutex<Option<Stats>> = Mutex::new(None);

fn record(nontrivial: bool, data: &[u8]) {
	let mut g = STATS.lock().unwrap();
	let s = g.get_or_insert_with(|| Stats { runs: 0, nontrivial: HashSet::new(), since_flush: 0 });
	s.runs += 1;
	s.since_flush += 1;
	if nontrivial {
		s.nontrivial.insert(crate::framework::hash64(data));
	}
	if s.since_flush >= 2000 {
		s.since_flush = 0;
		if let Ok(path) = std::env::var("JSV_FUZZ_STATS") {
			let _ = std::fs::write(path, format!("{{\"runs\": {}, \"distinct_nontrivial\": {}}}", s.runs, s.nontrivial.len()));
		}
	}
}

fn selected(prop: &str) -> bool {
	match std::env::var("JSV_FUZZ_PROP") {
		Ok(p) if !p.is_empty() => p == prop,
		_ => true,
	}
}

// ---------------------------------------------------------------------------
// parse_diff: raw bytes

pub fn parse_oracles(data: &[u8]) -> Result<bool, String> {
	let mut nt = false;
	if selected("C01") {
		nt |= props::c01::property(data, &crate::entry::ALL_EPS).map_err(|m| format!("C01: {m}"))?.1;
	}
	if selected("C07") {
		nt |= props::c07::property(data, &crate::entry::ALL_EPS).map_err(|m| format!("C07: {m}"))?.1;
	}
	if selected("C03") {
		nt |= props::c03::property(data).map_err(|m| format!("C03: {m}"))?.1;
	}
	if let Ok(text) = std::str::from_utf8(data) {
		if selected("C02") {
			nt |= props::c02::property(text, &crate::entry::ALL_EPS, None).map_err(|m| format!("C02: {m}"))?.1;
		}
		if selected("C05") {
			nt |= props::c05::property(text, true).map_err(|m| format!("C05: {m}"))?.1;
		}
		if selected("C11") {
			nt |= props::c11::property(text).map_err(|m| format!("C11: {m}"))?.1;
		}
		if selected("C12") {
			nt |= props::c12::property(text, &crate::entry::WITH_EPS).map_err(|m| format!("C12: {m}"))?.1;
		}
	}
	Ok(nt)
}

// ---------------------------------------------------------------------------
// print_rt: (value, options)

fn dec_char(u: &mut Unstructured) -> char {
	match u.int_in_range(0u8..=9).unwrap_or(0) {
		0..=4 => (u.int_in_range(0x20u32..=0x7e).unwrap_or(0x61)) as u8 as char,
		5 => char::from_u32(u.int_in_range(0u32..=0x1f).unwrap_or(0)).unwrap(),
		6 => *u.choose(&['"', '\\', '/', '\u{7f}', '\u{2028}', '\u{feff}', '\u{e9}', '\u{fffd}']).unwrap_or(&'"'),
		7 => char::from_u32(u.int_in_range(0x80u32..=0xd7ff).unwrap_or(0x80)).unwrap(),
		8 => char::from_u32(u.int_in_range(0xe000u32..=0xffff).unwrap_or(0xe000)).unwrap(),
		_ => char::from_u32(u.int_in_range(0x10000u32..=0x10ffff).unwrap_or(0x10000)).unwrap(),
	}
}

fn dec_string(u: &mut Unstructured) -> String {
	let n = u.int_in_range(0usize..=20).unwrap_or(0);
	(0..n).map(|_| dec_char(u)).collect()
}

fn dec_digits(u: &mut Unstructured, min: usize, max: usize) -> String {
	let n = u.int_in_range(min..=max).unwrap_or(min);
	(0..n).map(|_| (b'0' + u.int_in_range(0u8..=9).unwrap_or(0)) as char).collect()
}

pub fn dec_number(u: &mut Unstructured) -> String {
	let mut s = String::new();
	if u.arbitrary::<bool>().unwrap_or(false) {
		s.push('-');
	}
	if u.ratio(1u8, 4u8).unwrap_or(false) {
		s.push('0');
	} else {
		s.push((b'1' + u.int_in_range(0u8..=8).unwrap_or(0)) as char);
		s.push_str(&dec_digits(u, 0, 22));
	}
	if u.arbitrary::<bool>().unwrap_or(false) {
		s.push('.');
		s.push_str(&dec_digits(u, 1, 22));
	}
	if u.ratio(1u8, 3u8).unwrap_or(false) {
		s.push(*u.choose(&['e', 'E']).unwrap_or(&'e'));
		s.push_str(u.choose(&["", "+", "-"]).unwrap_or(&""));
		s.push_str(&dec_digits(u, 1, 3));
	}
	s
}

pub fn dec_value(u: &mut Unstructured, depth: u32, dups: bool) -> RefValue {
	let k = u.int_in_range(0u8..=(if depth == 0 { 5 } else { 9 })).unwrap_or(0);
	match k {
		0 => RefValue::Null,
		1 => RefValue::Bool(u.arbitrary().unwrap_or(false)),
		2 | 3 => RefValue::Num(dec_number(u)),
		4 | 5 => RefValue::Str(dec_string(u)),
		6 | 7 => {
			let n = u.int_in_range(0usize..=5).unwrap_or(0);
			RefValue::Arr((0..n).map(|_| dec_value(u, depth - 1, dups)).collect())
		}
		_ => {
			let n = u.int_in_range(0usize..=5).unwrap_or(0);
			let v = RefValue::Obj(
				(0..n)
					.map(|_| {
						let key = if u.arbitrary::<bool>().unwrap_or(false) { u.choose(&["a", "b", "", "k"]).unwrap_or(&"a").to_string() } else { dec_string(u) };
						(key, dec_value(u, depth - 1, dups))
					})
					.collect(),
			);
			if dups {
				v
			} else {
				crate::gen::dedup_keys(v)
			}
		}
	}
}

fn dec_lim(u: &mut Unstructured) -> Lim {
	match u.int_in_range(0u8..=4).unwrap_or(0) {
		0 => Lim::None,
		1 => Lim::Always,
		2 => Lim::Item(u.int_in_range(0usize..=4).unwrap_or(0)),
		3 => Lim::Width(u.int_in_range(0usize..=40).unwrap_or(0)),
		_ => Lim::ItemOrWidth(u.int_in_range(0usize..=4).unwrap_or(0), u.int_in_range(0usize..=40).unwrap_or(0)),
	}
}

pub fn dec_optcase(u: &mut Unstructured) -> OptCase {
	if u.ratio(1u8, 8u8).unwrap_or(false) {
		return OptCase::Preset(u.choose(&["compact", "inline", "pretty"]).unwrap_or(&"pretty"));
	}
	let mut f = || u.int_in_range(0usize..=3).unwrap_or(0);
	let fields: Vec<usize> = (0..12).map(|_| f()).collect();
	let tabs = u.arbitrary::<bool>().unwrap_or(false);
	let n = u.int_in_range(0u8..=4).unwrap_or(0);
	OptCase::Custom(Opts {
		indent_tabs: tabs,
		indent_n: if tabs { n.min(2) } else { n },
		array_begin: fields[0],
		array_end: fields[1],
		array_empty: fields[2],
		array_before_comma: fields[3],
		array_after_comma: fields[4],
		array_limit: dec_lim(u),
		object_begin: fields[5],
		object_end: fields[6],
		object_empty: fields[7],
		object_before_comma: fields[8],
		object_after_comma: fields[9],
		object_before_colon: fields[10],
		object_after_colon: fields[11],
		object_limit: dec_lim(u),
	})
}

pub fn print_oracles(data: &[u8]) -> Result<bool, String> {
	let mut u = Unstructured::new(data);
	let oc = dec_optcase(&mut u);
	let route = u.arbitrary::<bool>().unwrap_or(false);
	let v = dec_value(&mut u, 4, true);
	let mut nt = v.is_container();
	if selected("C04") {
		props::c04::property(&v, &oc, route).map_err(|m| format!("C04: {m}"))?;
	}
	if selected("C08") {
		props::c08::property(&v, route).map_err(|m| format!("C08: {m}"))?;
	}
	if selected("C13") {
		nt &= props::c13::property(&v, &oc, route).map_err(|m| format!("C13: {m}"))?.0;
	}
	Ok(nt)
}

// ---------------------------------------------------------------------------
// object_ops: operation histories, construction routes, unordered equality

fn dec_key(u: &mut Unstructured, keys: &[String]) -> String {
	let i = u.int_in_range(0usize..=keys.len() - 1).unwrap_or(0);
	keys[i].clone()
}

fn dec_mode(u: &mut Unstructured) -> c06::Mode {
	*u.choose(&[c06::Mode::Full, c06::Mode::OneThenDrop, c06::Mode::DropUntouched]).unwrap_or(&c06::Mode::Full)
}

pub fn dec_ops(u: &mut Unstructured, keys: &[String]) -> Vec<c06::Op> {
	use c06::Op;
	let mut ops = vec![];
	while !u.is_empty() && ops.len() < 200 {
		let v = u.int_in_range(0u32..=999).unwrap_or(0);
		let op = match u.int_in_range(0u8..=24).unwrap_or(0) {
			24 => Op::Canonicalize(u.int_in_range(0u8..=1).unwrap_or(0)),
			0..=4 => Op::Push(dec_key(u, keys), v),
			5 | 6 => Op::PushFront(dec_key(u, keys), v),
			7 => Op::PushEntry(dec_key(u, keys), v),
			8 => Op::PushEntryFront(dec_key(u, keys), v),
			9 | 10 => Op::Insert(dec_key(u, keys), v, dec_mode(u)),
			11 | 12 => Op::InsertFront(dec_key(u, keys), v, dec_mode(u)),
			13 | 14 => Op::Remove(dec_key(u, keys), dec_mode(u), u.arbitrary().unwrap_or(false)),
			15 => Op::RemoveUnique(dec_key(u, keys)),
			16 => Op::RemoveAt(u.int_in_range(0usize..=80).unwrap_or(0)),
			17 => Op::Sort,
			18 => Op::Rebuild(u.int_in_range(0u8..=4).unwrap_or(0)),
			19 => Op::GetOrInsertWith(dec_key(u, keys), v),
			20 => Op::GetMutOrInsertWithSet(dec_key(u, keys), v, v / 2),
			21 => Op::IterMutSet(u.int_in_range(0usize..=80).unwrap_or(0), v),
			22 => Op::GetMutSet(dec_key(u, keys), u.int_in_range(0usize..=2).unwrap_or(0), v),
			_ => {
				match u.int_in_range(0u8..=2).unwrap_or(0) {
					0 => Op::CloneContinue,
					1 => Op::CloneKeep,
					_ => Op::CloneFromInto(u.int_in_range(0usize..=60).unwrap_or(0)),
				}
			}
		};
		ops.push(op);
	}
	ops
}

pub fn object_oracles(data: &[u8]) -> Result<bool, String> {
	let keys = c06::h3_keys();
	let mut u = Unstructured::new(data);
	let ops = dec_ops(&mut u, &keys);
	let universe: Vec<&str> = keys.iter().map(|s| s.as_str()).collect();
	let mut nt = false;
	let (obj, model) = match c06::run_history(&ops, &universe, selected("C06")) {
		Ok(x) => x,
		Err(m) if selected("C06") => return Err(format!("C06: {m}")),
		// campaigns for C14 / C15 only need some object with a history: a misbehaving operation is C06's business
		Err(_) => return Ok(false),
	};
	nt |= ops.len() >= 8 && ops.iter().any(|o| matches!(o, c06::Op::Remove(..) | c06::Op::RemoveAt(_) | c06::Op::Insert(..) | c06::Op::InsertFront(..)));
	if selected("C14") && model.len() <= 40 {
		props::c14::routes_property(&model, ops.len() as u64).map_err(|m| format!("C14: {m}"))?;
	}
	if selected("C15") {
		// the final object against a rotated rebuild of itself and against a one-entry mutation
		let mut rotated = model.clone();
		if !rotated.is_empty() {
			let k = ops.len() % rotated.len();
			rotated.rotate_left(k);
		}
		let a = json_syntax::Value::Object(obj);
		let b = RefValue::Obj(rotated.clone()).to_value();
		props::c15::pair_property(&a, &b, true, false).map_err(|m| format!("C15 (rotation): {m}"))?;
		if let Some(first) = rotated.first_mut() {
			first.1 = RefValue::str("changed");
			let c = RefValue::Obj(rotated.clone()).to_value();
			let expected = props::c15::normal_form(&RefValue::Obj(model.clone())) == props::c15::normal_form(&RefValue::Obj(rotated));
			props::c15::pair_property(&a, &c, expected, false).map_err(|m| format!("C15 (mutation): {m}"))?;
		}
	}
	Ok(nt)
}

// ---------------------------------------------------------------------------
// value_laws: one decoded value through the value-level properties (canonical form, Eq/Ord/Hash, unordered
// equality, the serde bridges)

fn known(r: Result<(), (String, Option<&'static str>)>, prop: &str) -> Result<bool, String> {
	match r {
		Ok(()) => Ok(false),
		// open known findings are identified by their signature and excluded (the campaign would otherwise
		// rediscover them forever); anything else is a violation
		Err((_, Some(sig))) if open_signatures().iter().any(|k| k == sig) => Ok(true),
		Err((m, _)) => Err(format!("{prop}: {m}")),
	}
}

fn open_signatures() -> &'static Vec<String> {
	static S: std::sync::OnceLock<Vec<String>> = std::sync::OnceLock::new();
	S.get_or_init(|| crate::framework::load_known_findings().into_iter().filter(|k| k.status == "open").map(|k| k.signature).collect())
}

pub fn value_oracles(data: &[u8]) -> Result<bool, String> {
	let mut u = Unstructured::new(data);
	let sel = u.arbitrary::<u16>().unwrap_or(0);
	let kind = u.arbitrary::<u8>().unwrap_or(0);
	let ch: Vec<u8> = (0..24).map(|_| u.arbitrary::<u8>().unwrap_or(0)).collect();
	let v = dec_value(&mut u, 4, true);
	let nt = v.any(&|x| matches!(x, RefValue::Obj(o) if o.len() >= 2)) && v.any(&|x| matches!(x, RefValue::Num(_)));
	// the I-JSON reading of the value: no duplicate keys, numbers within double range
	let ij = crate::gen::map_numbers(crate::gen::dedup_keys(v.clone()), &|n| if props::c17::in_double_range(&n) { n } else { n.split(['e', 'E']).next().unwrap().to_string() });
	if selected("C09") {
		props::c09::property(&ij).map_err(|m| format!("C09: {m}"))?;
	}
	if selected("C10") {
		let (ta, tb, _, _) = props::c10::texts(&ij, &ch, &ch[8..], &ch[4..], &ch[12..]);
		props::c10::property(&ij, &ta, &tb).map_err(|m| format!("C10: {m}"))?;
	}
	if selected("C14") {
		let s = props::c15::shuffle(&v, &mut crate::gen::Chooser::new(&ch));
		let m = props::c14::near_copy(&s, sel, kind);
		props::c14::laws_property(&[v.clone(), s, m]).map_err(|m| format!("C14: {m}"))?;
	}
	if selected("C15") {
		if let Err((m, _)) = props::c15::shuffle_case(&v, &ch, sel, kind).verdict {
			return Err(format!("C15: {m}"));
		}
	}
	if selected("C17") {
		known(props::c17::property(&v).map(|_| ()), "C17")?;
	}
	if selected("C18") {
		// stated domain of the round-trip clause: duplicate-free, numbers within double range
		known(props::c18::into_from(&ij).map(|_| ()), "C18")?;
		known(props::c18::no_panic(&v).map(|_| ()), "C18")?;
		if let Ok(j) = serde_json::from_str::<serde_json::Value>(&crate::refprint::compact(&ij)) {
			known(props::c18::from_into(&j).map(|_| ()), "C18")?;
		}
	}
	Ok(nt)
}

// ---------------------------------------------------------------------------

pub fn run_target(target: &str, data: &[u8]) -> Result<bool, String> {
	match target {
		"parse_diff" => parse_oracles(data),
		"print_rt" => print_oracles(data),
		"object_ops" => object_oracles(data),
		"value_laws" => value_oracles(data),
		t => Err(format!("unknown fuzz target {t}")),
	}
}

/// Entry point of the fuzz targets: panics (= libFuzzer crash) on a violation.
pub fn fuzz_one(target: &str, data: &[u8]) {
	// libfuzzer-sys installs a panic hook that aborts at once; the oracles need to catch the panics they
	// attribute to known findings (and turn any other panic into a reported violation), so the harness hook,
	// which stays silent inside `guarded`, replaces it
	static INIT: std::sync::Once = std::sync::Once::new();
	INIT.call_once(crate::framework::install_panic_hook);
	match crate::framework::guarded(|| run_target(target, data)) {
		Ok(Ok(nt)) => record(nt, data),
		Ok(Err(m)) | Err(m) => {
			eprintln!("JSV-FUZZ-VIOLATION {}", m.replace('\n', " "));
			std::process::abort();
		}
	}
}

pub fn targets_of(prop: &str) -> Vec<&'static str> {
	match prop {
		"C01" | "C02" | "C03" | "C05" | "C07" | "C11" | "C12" => vec!["parse_diff"],
		"C04" | "C08" | "C13" => vec!["print_rt"],
		"C06" => vec!["object_ops"],
		"C14" | "C15" => vec!["object_ops", "value_laws"],
		"C09" | "C10" | "C17" | "C18" => vec!["value_laws"],
		_ => vec![],
	}
}
