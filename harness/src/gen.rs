//! R5: generators (proptest strategies) and the choice-driven renderer.
use crate::refvalue::RefValue;
use proptest::collection::vec;
use proptest::prelude::*;

// ---------------------------------------------------------------------------
// characters, strings, keys

pub fn arb_char() -> BoxedStrategy<char> {
	prop_oneof![
		30 => (0x20u32..0x7f).prop_map(|c| char::from_u32(c).unwrap()),
		6 => (0u32..0x20).prop_map(|c| char::from_u32(c).unwrap()),
		6 => prop::sample::select(vec!['"', '\\', '/', '\u{7f}', '\u{8}', '\u{c}', '\n', '\r', '\t']),
		5 => (0x80u32..0x800).prop_map(|c| char::from_u32(c).unwrap()),
		5 => (0x800u32..0xD800).prop_map(|c| char::from_u32(c).unwrap()),
		3 => prop::sample::select(vec!['\u{2028}', '\u{2029}', '\u{feff}', '\u{fffd}', '\u{200b}', '\u{a0}', '\u{85}']),
		4 => (0xE000u32..0x10000).prop_map(|c| char::from_u32(c).unwrap()),
		2 => prop::sample::select(vec!['\u{fffe}', '\u{ffff}', '\u{fdd0}', '\u{1fffe}', '\u{10ffff}', '\u{10fffe}']),
		5 => (0x10000u32..0x110000).prop_map(|c| char::from_u32(c).unwrap()),
		2 => prop::sample::select(vec!['\u{301}', '\u{308}', '\u{20d7}', '\u{1f3fb}']),
	]
	.boxed()
}

pub fn arb_string() -> BoxedStrategy<String> {
	prop_oneof![
		6 => vec(arb_char(), 0..8).prop_map(|v| v.into_iter().collect::<String>()),
		// long enough to leave the 16-byte inline buffer
		2 => vec(arb_char(), 12..40).prop_map(|v| v.into_iter().collect::<String>()),
		1 => Just(String::new()),
		1 => "[a-z]{15,18}".prop_map(|s| s),
	]
	.boxed()
}

pub fn arb_key(dups: bool) -> BoxedStrategy<String> {
	if dups {
		prop_oneof![
			5 => prop::sample::select(vec!["a", "b", "", "k", "key", "a\u{0}", "\u{e000}", "\u{10000}"]).prop_map(|s| s.to_string()),
			3 => arb_string(),
			1 => "(prefix|prefix_|prefix__)[ab]?".prop_map(|s| s),
		]
		.boxed()
	} else {
		prop_oneof![
			3 => prop::sample::select(vec!["a", "b", "", "k", "key", "\u{e000}", "\u{10000}", "\u{ffff}", "\u{10ffff}", "aa", "ab", "a\u{e000}", "a\u{10000}"]).prop_map(|s| s.to_string()),
			4 => arb_string(),
			1 => "(prefix|prefix_|prefix__)[ab]?".prop_map(|s| s),
		]
		.boxed()
	}
}

// ---------------------------------------------------------------------------
// numbers

fn digits(min: usize, max: usize) -> BoxedStrategy<String> {
	vec(0u8..10, min..=max)
		.prop_map(|d| d.into_iter().map(|x| (b'0' + x) as char).collect())
		.boxed()
}

fn nonzero_int(max_digits: usize) -> BoxedStrategy<String> {
	((1u8..10), digits(0, max_digits.saturating_sub(1)))
		.prop_map(|(f, r)| format!("{}{}", (b'0' + f) as char, r))
		.boxed()
}

/// Any RFC 8259 number spelling. `big` allows up to 400 digits.
pub fn arb_number(big: bool) -> BoxedStrategy<String> {
	let maxd = if big { 400 } else { 24 };
	let int = prop_oneof![
		2 => Just("0".to_string()),
		5 => nonzero_int(6),
		2 => nonzero_int(22),
		1 => nonzero_int(maxd),
	];
	let frac = prop_oneof![
		4 => Just(String::new()),
		4 => digits(1, 6).prop_map(|d| format!(".{d}")),
		2 => digits(1, 25).prop_map(|d| format!(".{d}")),
		1 => digits(1, maxd).prop_map(|d| format!(".{d}")),
	];
	let exp = prop_oneof![
		5 => Just(String::new()),
		4 => (prop::sample::select(vec!["e", "E"]), prop::sample::select(vec!["", "+", "-"]), digits(1, 3))
			.prop_map(|(e, s, d)| format!("{e}{s}{d}")),
	];
	(any::<bool>(), int, frac, exp)
		.prop_map(|(neg, i, f, e)| format!("{}{i}{f}{e}", if neg { "-" } else { "" }))
		.boxed()
}

// ---------------------------------------------------------------------------
// values

#[derive(Clone, Copy, Debug)]
pub struct ValueCfg {
	pub depth: u32,
	pub width: usize,
	pub dup_keys: bool,
	pub big_numbers: bool,
}

impl ValueCfg {
	pub const SMALL: ValueCfg = ValueCfg {
		depth: 3,
		width: 4,
		dup_keys: true,
		big_numbers: false,
	};
	pub const MEDIUM: ValueCfg = ValueCfg {
		depth: 5,
		width: 6,
		dup_keys: true,
		big_numbers: true,
	};
}

pub fn arb_leaf(big_numbers: bool) -> BoxedStrategy<RefValue> {
	prop_oneof![
		1 => Just(RefValue::Null),
		1 => any::<bool>().prop_map(RefValue::Bool),
		3 => arb_number(big_numbers).prop_map(RefValue::Num),
		3 => arb_string().prop_map(RefValue::Str),
	]
	.boxed()
}

pub fn dedup_keys(v: RefValue) -> RefValue {
	match v {
		RefValue::Arr(a) => RefValue::Arr(a.into_iter().map(dedup_keys).collect()),
		RefValue::Obj(o) => {
			let mut seen = std::collections::HashSet::new();
			RefValue::Obj(
				o.into_iter()
					.filter(|(k, _)| seen.insert(k.clone()))
					.map(|(k, v)| (k, dedup_keys(v)))
					.collect(),
			)
		}
		other => other,
	}
}

pub fn arb_value(cfg: ValueCfg) -> BoxedStrategy<RefValue> {
	let leaf = arb_leaf(cfg.big_numbers);
	let width = cfg.width;
	let dups = cfg.dup_keys;
	let s = leaf.prop_recursive(cfg.depth, 64, width as u32, move |inner| {
		prop_oneof![
			1 => vec(inner.clone(), 0..=width).prop_map(RefValue::Arr),
			1 => vec((arb_key(dups), inner), 0..=width).prop_map(RefValue::Obj),
		]
	});
	if dups {
		s.boxed()
	} else {
		s.prop_map(dedup_keys).boxed()
	}
}

/// Long keys that share prefixes and cross the 16-byte inline capacity.
pub fn arb_long_key() -> BoxedStrategy<String> {
	prop_oneof![
		3 => (0u32..40).prop_map(|i| format!("a-rather-long-key-number-{i}")),
		2 => (0u32..12).prop_map(|i| format!("sixteen-bytes-{i:03}")),
		2 => (0u32..30).prop_map(|i| format!("k{i}")),
		2 => (0u32..3000).prop_map(|i| format!("key{i}")),
		1 => vec(arb_char(), 17..60).prop_map(|v| v.into_iter().collect::<String>()),
		1 => arb_key(true),
	]
	.boxed()
}

/// Values beyond the small envelope: wide containers (tens to hundreds of
/// members, forcing several growth cycles of the key index), deep chains, long
/// strings, arrays of records.
pub fn arb_large_value(dups: bool) -> BoxedStrategy<RefValue> {
	let small = arb_value(ValueCfg { depth: 2, width: 3, dup_keys: dups, big_numbers: false });
	let scalar = arb_leaf(false);
	let s = prop_oneof![
		// wide object
		3 => vec((arb_long_key(), scalar.clone()), 9..120).prop_map(RefValue::Obj),
		// very wide object with (mostly) distinct keys: several growth cycles of the key index (3, 7, 14, 28, 56, 112, 224, ...)
		2 => vec(((0u32..100_000).prop_map(|i| format!("member-{i}")), scalar.clone()), 100..480).prop_map(RefValue::Obj),
		// heavy duplication: one to three keys repeated dozens of times, a few other members in between
		2 => (vec(prop_oneof![8 => (0u8..3).prop_map(|i| ["dup", "dup-with-a-longer-name", ""][i as usize].to_string()), 1 => arb_long_key()], 15..90), vec(0u32..1000, 90)).prop_map(|(keys, vals)| {
			RefValue::Obj(keys.into_iter().zip(vals).map(|(k, v)| (k, RefValue::Num(v.to_string()))).collect())
		}),
		// wide array
		2 => vec(scalar.clone(), 9..200).prop_map(RefValue::Arr),
		// array of records
		2 => vec(vec((arb_long_key(), small.clone()), 3..12).prop_map(RefValue::Obj), 5..30).prop_map(RefValue::Arr),
		// deep chain around a small value
		2 => (small.clone(), vec(any::<bool>(), 6..48)).prop_map(|(inner, kinds)| {
			let mut v = inner;
			for (i, is_obj) in kinds.into_iter().enumerate() {
				v = if is_obj { RefValue::Obj(vec![(format!("level{i}"), v)]) } else { RefValue::Arr(vec![v]) };
			}
			v
		}),
		// long strings (also as a key)
		1 => (vec(arb_char(), 40..400), vec(arb_char(), 17..120)).prop_map(|(a, b)| {
			let a: String = a.into_iter().collect();
			let b: String = b.into_iter().collect();
			RefValue::Obj(vec![(b, RefValue::Str(a))])
		}),
		// object of wide objects
		1 => vec((arb_long_key(), vec((arb_long_key(), scalar), 9..40).prop_map(RefValue::Obj)), 2..6).prop_map(RefValue::Obj),
	];
	if dups {
		s.boxed()
	} else {
		s.prop_map(dedup_keys).boxed()
	}
}

/// Rewrites every number spelling of a tree.
pub fn map_numbers(v: RefValue, f: &dyn Fn(String) -> String) -> RefValue {
	match v {
		RefValue::Num(n) => RefValue::Num(f(n)),
		RefValue::Arr(a) => RefValue::Arr(a.into_iter().map(|x| map_numbers(x, f)).collect()),
		RefValue::Obj(o) => RefValue::Obj(o.into_iter().map(|(k, x)| (k, map_numbers(x, f))).collect()),
		other => other,
	}
}

/// The usual mix for document-level properties: mostly medium values, some large ones.
pub fn arb_doc_value(cfg: ValueCfg) -> BoxedStrategy<RefValue> {
	prop_oneof![6 => arb_value(cfg), 1 => arb_large_value(cfg.dup_keys)].boxed()
}

/// A value whose root is a container (more interesting for printers).
pub fn arb_container_value(cfg: ValueCfg) -> BoxedStrategy<RefValue> {
	let inner = arb_value(ValueCfg {
		depth: cfg.depth.saturating_sub(1),
		..cfg
	});
	let width = cfg.width;
	let dups = cfg.dup_keys;
	let s = prop_oneof![
		1 => vec(inner.clone(), 0..=width).prop_map(RefValue::Arr),
		1 => vec((arb_key(dups), inner), 0..=width).prop_map(RefValue::Obj),
	];
	if dups {
		s.boxed()
	} else {
		s.prop_map(dedup_keys).boxed()
	}
}

// ---------------------------------------------------------------------------
// renderer: turns a tree into one of its many JSON spellings, driven by a
// byte stream of choices (all zero = compact, raw characters).

pub struct Chooser<'a> {
	bytes: &'a [u8],
	i: usize,
}

impl<'a> Chooser<'a> {
	pub fn new(bytes: &'a [u8]) -> Self {
		Chooser { bytes, i: 0 }
	}
	pub fn next(&mut self) -> u8 {
		let b = self.bytes.get(self.i).copied().unwrap_or(0);
		self.i += 1;
		b
	}
}

#[derive(Clone, Copy, Debug)]
pub struct RenderCfg {
	/// Maximum number of whitespace characters at each legal place.
	pub ws_max: u8,
	/// Whether escapes may be chosen for characters that do not need one.
	pub free_escapes: bool,
}

impl RenderCfg {
	pub const COMPACT: RenderCfg = RenderCfg {
		ws_max: 0,
		free_escapes: false,
	};
	pub const FREE: RenderCfg = RenderCfg {
		ws_max: 3,
		free_escapes: true,
	};
}

fn ws(ch: &mut Chooser, cfg: RenderCfg, out: &mut String) {
	if cfg.ws_max == 0 {
		return;
	}
	let n = ch.next() % (cfg.ws_max + 1);
	for _ in 0..n {
		out.push([' ', '\t', '\n', '\r'][(ch.next() % 4) as usize]);
	}
}

fn hex4(u: u32, style: u8, out: &mut String) {
	let s = format!("{u:04x}");
	match style % 3 {
		0 => out.push_str(&s),
		1 => out.push_str(&s.to_uppercase()),
		_ => {
			for (i, c) in s.chars().enumerate() {
				if i % 2 == 0 {
					out.push(c.to_ascii_uppercase())
				} else {
					out.push(c)
				}
			}
		}
	}
}

pub fn render_string(s: &str, ch: &mut Chooser, cfg: RenderCfg, out: &mut String) {
	out.push('"');
	for c in s.chars() {
		let b = ch.next();
		let short = match c {
			'"' => Some("\\\""),
			'\\' => Some("\\\\"),
			'/' => Some("\\/"),
			'\u{8}' => Some("\\b"),
			'\u{c}' => Some("\\f"),
			'\n' => Some("\\n"),
			'\r' => Some("\\r"),
			'\t' => Some("\\t"),
			_ => None,
		};
		let must = c == '"' || c == '\\' || (c as u32) < 0x20;
		let mode = if must {
			// 0 => short if available else \u ; others => \u
			if short.is_some() && b % 4 != 3 {
				1
			} else {
				2
			}
		} else if !cfg.free_escapes {
			0
		} else {
			match b % 8 {
				0..=4 => 0,
				5 => {
					if short.is_some() {
						1
					} else {
						2
					}
				}
				_ => 2,
			}
		};
		match mode {
			0 => out.push(c),
			1 => out.push_str(short.unwrap()),
			_ => {
				let style = b / 8;
				let mut buf = [0u16; 2];
				for u in c.encode_utf16(&mut buf) {
					out.push_str("\\u");
					hex4(*u as u32, style, out);
				}
			}
		}
	}
	out.push('"');
}

pub fn render(v: &RefValue, ch: &mut Chooser, cfg: RenderCfg, out: &mut String) {
	match v {
		RefValue::Null => out.push_str("null"),
		RefValue::Bool(true) => out.push_str("true"),
		RefValue::Bool(false) => out.push_str("false"),
		RefValue::Num(n) => out.push_str(n),
		RefValue::Str(s) => render_string(s, ch, cfg, out),
		RefValue::Arr(a) => {
			out.push('[');
			ws(ch, cfg, out);
			for (i, item) in a.iter().enumerate() {
				if i > 0 {
					out.push(',');
					ws(ch, cfg, out);
				}
				render(item, ch, cfg, out);
				ws(ch, cfg, out);
			}
			out.push(']');
		}
		RefValue::Obj(o) => {
			out.push('{');
			ws(ch, cfg, out);
			for (i, (k, item)) in o.iter().enumerate() {
				if i > 0 {
					out.push(',');
					ws(ch, cfg, out);
				}
				render_string(k, ch, cfg, out);
				ws(ch, cfg, out);
				out.push(':');
				ws(ch, cfg, out);
				render(item, ch, cfg, out);
				ws(ch, cfg, out);
			}
			out.push('}');
		}
	}
}

/// Renders a whole document (with optional leading/trailing whitespace).
pub fn render_doc(v: &RefValue, choices: &[u8], cfg: RenderCfg) -> String {
	let mut ch = Chooser::new(choices);
	let mut out = String::new();
	ws(&mut ch, cfg, &mut out);
	render(v, &mut ch, cfg, &mut out);
	ws(&mut ch, cfg, &mut out);
	out
}

pub fn arb_choices() -> BoxedStrategy<Vec<u8>> {
	prop_oneof![
		1 => Just(Vec::new()),
		4 => vec(any::<u8>(), 0..256),
	]
	.boxed()
}

// ---------------------------------------------------------------------------
// mutations of a text

#[derive(Clone, Debug)]
pub struct Mutation {
	pub kind: u8,
	/// Position selector, mapped monotonically onto the text.
	pub pos: u16,
	pub pos2: u16,
	pub chr: char,
}

pub const PROBE_CHARS: &[char] = &[
	'[', ']', '{', '}', ',', ':', '"', '\\', '0', '1', '9', '-', '+', '.', 'e', 'E', ' ', '\t', '\n', '\r', 'n', 't', 'f',
	'u', 'a', 'x', '/', '\u{0}', '\u{1f}', '\u{7f}', '\u{b}', '\u{c}', '\u{a0}', '\u{feff}', '\u{2028}', '\u{660}',
	'\u{ff11}', '\u{10000}', 'D', '8', 'C',
];

pub fn arb_mutation() -> BoxedStrategy<Mutation> {
	(0u8..6, any::<u16>(), any::<u16>(), prop_oneof![4 => prop::sample::select(PROBE_CHARS.to_vec()), 1 => arb_char()])
		.prop_map(|(kind, pos, pos2, chr)| Mutation { kind, pos, pos2, chr })
		.boxed()
}

#[inline]
pub fn map_index(sel: u16, len: usize) -> usize {
	// monotone map of 0..65536 onto 0..len (len > 0)
	((sel as usize) * len) >> 16
}

pub fn apply_mutation(chars: &mut Vec<char>, m: &Mutation) {
	let n = chars.len();
	match m.kind {
		0 => {
			// insert
			let p = map_index(m.pos, n + 1);
			chars.insert(p, m.chr);
		}
		1 if n > 0 => {
			// delete
			chars.remove(map_index(m.pos, n));
		}
		2 if n > 0 => {
			// replace
			let p = map_index(m.pos, n);
			chars[p] = m.chr;
		}
		3 if n > 0 => {
			// duplicate
			let p = map_index(m.pos, n);
			let c = chars[p];
			chars.insert(p, c);
		}
		4 if n > 1 => {
			// swap two positions
			let p = map_index(m.pos, n);
			let q = map_index(m.pos2, n);
			chars.swap(p, q);
		}
		5 => {
			// truncate
			let p = map_index(m.pos, n + 1);
			chars.truncate(p);
		}
		_ => {}
	}
}
