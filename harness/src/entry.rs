//! Every public parsing entry point of json-syntax behind one interface.
use decoded_char::DecodedChar;
use json_syntax::parse::{Error, Options};
use json_syntax::{CodeMap, Parse, Value};

#[derive(Clone, Debug, PartialEq, Eq)]
pub enum PErr {
	Stream(usize),
	Unexpected(usize, Option<char>),
	InvalidCodePoint(usize, usize, u32),
	MissingLow(usize, usize, u16),
	InvalidLow(usize, usize, u16, u32),
	InvalidUtf8(usize),
}

impl PErr {
	pub fn from<E>(e: Error<E>) -> (PErr, usize, (usize, usize)) {
		let pos = e.position();
		let sp = e.span();
		let p = match e {
			Error::Stream(p, _) => PErr::Stream(p),
			Error::Unexpected(p, c) => PErr::Unexpected(p, c),
			Error::InvalidUnicodeCodePoint(s, c) => PErr::InvalidCodePoint(s.start(), s.end(), c),
			Error::MissingLowSurrogate(s, h) => PErr::MissingLow(s.start(), s.end(), h),
			Error::InvalidLowSurrogate(s, h, c) => PErr::InvalidLow(s.start(), s.end(), h, c),
			Error::InvalidUtf8(p) => PErr::InvalidUtf8(p),
		};
		(p, pos, (sp.start(), sp.end()))
	}
}

/// Result of a parse through some entry point.
pub struct POut {
	pub result: Result<(Value, Option<CodeMap>), PErr>,
	/// `Error::position()` and `Error::span()` as reported by the accessor
	/// methods (checked for consistency with the variant payload).
	pub pos_span: Option<(usize, (usize, usize))>,
}

fn wrap<E>(r: Result<(Value, CodeMap), Error<E>>) -> POut {
	match r {
		Ok((v, m)) => POut {
			result: Ok((v, Some(m))),
			pos_span: None,
		},
		Err(e) => {
			let (p, pos, span) = PErr::from(e);
			POut {
				result: Err(p),
				pos_span: Some((pos, span)),
			}
		}
	}
}

#[derive(Clone, Copy, PartialEq, Eq, Debug)]
pub enum Ep {
	Str,
	StrWith,
	Slice,
	SliceWith,
	Utf8,
	Utf8With,
	InfallibleUtf8,
	Utf8InfallibleWith,
	Parse,
	ParseWith,
	Infallible,
	InfallibleWith,
	FromStr,
}

pub const ALL_EPS: [Ep; 13] = [
	Ep::Str,
	Ep::StrWith,
	Ep::Slice,
	Ep::SliceWith,
	Ep::Utf8,
	Ep::Utf8With,
	Ep::InfallibleUtf8,
	Ep::Utf8InfallibleWith,
	Ep::Parse,
	Ep::ParseWith,
	Ep::Infallible,
	Ep::InfallibleWith,
	Ep::FromStr,
];

/// Entry points that take an `Options` record.
pub const WITH_EPS: [Ep; 6] = [
	Ep::StrWith,
	Ep::SliceWith,
	Ep::Utf8With,
	Ep::Utf8InfallibleWith,
	Ep::ParseWith,
	Ep::InfallibleWith,
];

impl Ep {
	pub fn takes_options(self) -> bool {
		WITH_EPS.contains(&self)
	}
	pub fn name(self) -> &'static str {
		match self {
			Ep::Str => "parse_str",
			Ep::StrWith => "parse_str_with",
			Ep::Slice => "parse_slice",
			Ep::SliceWith => "parse_slice_with",
			Ep::Utf8 => "parse_utf8",
			Ep::Utf8With => "parse_utf8_with",
			Ep::InfallibleUtf8 => "parse_infallible_utf8",
			Ep::Utf8InfallibleWith => "parse_utf8_infallible_with",
			Ep::Parse => "parse",
			Ep::ParseWith => "parse_with",
			Ep::Infallible => "parse_infallible",
			Ep::InfallibleWith => "parse_infallible_with",
			Ep::FromStr => "from_str",
		}
	}
	pub fn by_name(n: &str) -> Option<Ep> {
		ALL_EPS.iter().copied().find(|e| e.name() == n)
	}
}

pub fn strict() -> Options {
	Options::strict()
}

pub fn options(truncated: bool, invalid: bool) -> Options {
	let mut o = Options::strict();
	o.accept_truncated_surrogate_pair = truncated;
	o.accept_invalid_codepoints = invalid;
	o
}

/// Parses `text` through `ep`. Entry points without an options parameter
/// ignore `opts` (callers pass strict options for them).
pub fn parse_via(ep: Ep, text: &str, opts: Options) -> POut {
	match ep {
		Ep::Str => wrap(Value::parse_str(text)),
		Ep::StrWith => wrap(Value::parse_str_with(text, opts)),
		Ep::Slice => wrap(Value::parse_slice(text.as_bytes())),
		Ep::SliceWith => wrap(Value::parse_slice_with(text.as_bytes(), opts)),
		Ep::Utf8 => wrap(Value::parse_utf8(text.chars().map(Ok::<char, ()>))),
		Ep::Utf8With => wrap(Value::parse_utf8_with(text.chars().map(Ok::<char, ()>), opts)),
		Ep::InfallibleUtf8 => wrap(Value::parse_infallible_utf8(text.chars())),
		Ep::Utf8InfallibleWith => wrap(Value::parse_utf8_infallible_with(text.chars(), opts)),
		Ep::Parse => wrap(Value::parse(
			text.chars().map(|c| Ok::<DecodedChar, ()>(DecodedChar::from_utf8(c))),
		)),
		Ep::ParseWith => wrap(Value::parse_with(
			text.chars().map(|c| Ok::<DecodedChar, ()>(DecodedChar::from_utf8(c))),
			opts,
		)),
		Ep::Infallible => wrap(Value::parse_infallible(text.chars().map(DecodedChar::from_utf8))),
		Ep::InfallibleWith => wrap(Value::parse_infallible_with(
			text.chars().map(DecodedChar::from_utf8),
			opts,
		)),
		Ep::FromStr => match text.parse::<Value>() {
			Ok(v) => POut {
				result: Ok((v, None)),
				pos_span: None,
			},
			Err(e) => {
				let (p, pos, span) = PErr::from(e);
				POut {
					result: Err(p),
					pos_span: Some((pos, span)),
				}
			}
		},
	}
}

pub fn parse_bytes_via(ep: Ep, bytes: &[u8], opts: Options) -> POut {
	match ep {
		Ep::Slice => wrap(Value::parse_slice(bytes)),
		Ep::SliceWith => wrap(Value::parse_slice_with(bytes, opts)),
		_ => panic!("entry point {ep:?} does not take bytes"),
	}
}

pub fn codemap_triples(m: &CodeMap) -> Vec<(usize, usize, usize)> {
	m.iter().map(|(_, e)| (e.span.start(), e.span.end(), e.volume)).collect()
}

/// Parses `chars[..k]` followed by an injected stream error carrying `marker`.
/// Returns the normalised error plus the payload that came back.
pub fn parse_with_stream_error(ep: Ep, chars: &[char], k: usize, marker: u32, opts: Options) -> (POut, Option<u32>) {
	let it = chars[..k].iter().copied().map(Ok::<char, u32>).chain(std::iter::once(Err(marker)));
	fn split<T>(r: Result<(Value, CodeMap), Error<T>>) -> (POut, Option<T>) {
		match r {
			Ok((v, m)) => (
				POut {
					result: Ok((v, Some(m))),
					pos_span: None,
				},
				None,
			),
			Err(e) => {
				let pos = e.position();
				let sp = e.span();
				let (p, payload) = match e {
					Error::Stream(p, x) => (PErr::Stream(p), Some(x)),
					Error::Unexpected(p, c) => (PErr::Unexpected(p, c), None),
					Error::InvalidUnicodeCodePoint(s, c) => (PErr::InvalidCodePoint(s.start(), s.end(), c), None),
					Error::MissingLowSurrogate(s, h) => (PErr::MissingLow(s.start(), s.end(), h), None),
					Error::InvalidLowSurrogate(s, h, c) => (PErr::InvalidLow(s.start(), s.end(), h, c), None),
					Error::InvalidUtf8(p) => (PErr::InvalidUtf8(p), None),
				};
				(
					POut {
						result: Err(p),
						pos_span: Some((pos, (sp.start(), sp.end()))),
					},
					payload,
				)
			}
		}
	}
	match ep {
		Ep::Utf8 => split(Value::parse_utf8(it)),
		Ep::Utf8With => split(Value::parse_utf8_with(it, opts)),
		Ep::Parse => split(Value::parse(it.map(|c| c.map(DecodedChar::from_utf8)))),
		Ep::ParseWith => split(Value::parse_with(it.map(|c| c.map(DecodedChar::from_utf8)), opts)),
		_ => panic!("{ep:?} has no fallible stream"),
	}
}

pub const STREAM_EPS: [Ep; 4] = [Ep::Utf8, Ep::Utf8With, Ep::Parse, Ep::ParseWith];
